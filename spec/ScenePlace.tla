----------------------------- MODULE ScenePlace -----------------------------
(***************************************************************************)
(* Scene-level quantities as explicit placement of every instance          *)
(* (property C10), and a batch validator of recorded scene histories.      *)
(*                                                                         *)
(* A scene configuration is a forest of frames (parent index per node,     *)
(* 0 = the base frame), an exact affine edge transform per node            *)
(*     x |-> (l.x + t) / d      l integer 3x3, t integer vector, d > 0     *)
(* (rotations from the cube group, rational rotations such as the 3-4-5    *)
(* one, uniform scales 2 and 1/2, integer translations), an optional       *)
(* geometry per node, and a table of geometries (integer vertices,         *)
(* triangles as 1-based index triples, empty for point clouds and paths).  *)
(*   World(n)  = product of the edge transforms from the base to n         *)
(*   Placed    = for every node with geometry, that geometry moved by      *)
(*               World(n)                                                  *)
(* Every scene quantity is a function of Placed.  Operations (copy,        *)
(* scaled, rezero, unit conversion, apply_transform, add, subscene,        *)
(* dump / to_mesh / to_geometry, geometry and graph edits) are specified   *)
(* by their effect on Placed: a sequence of STEPS, each an affine map or a *)
(* re-zeroing, applied in order to the placed points (optionally only to   *)
(* the instances of the first scene of a sum).                             *)
(*                                                                         *)
(* Coordinates are handled in units of 1/F (c.F is chosen by the harness   *)
(* so that every division below is exact; an inexact division is reported  *)
(* as the clause "inexact", which the harness treats as a machinery error, *)
(* never as a violation).                                                  *)
(***************************************************************************)
EXTENDS Integers, Sequences, FiniteSets, TLC, Json

Cases == ndJsonDeserialize("cases.ndjson")
VARIABLE i

\* ---------------------------------------------------------- exact arithmetic
IdL == <<<<1, 0, 0>>, <<0, 1, 0>>, <<0, 0, 1>>>>
Dot(r, v) == r[1] * v[1] + r[2] * v[2] + r[3] * v[3]
MulLV(L, v) == <<Dot(L[1], v), Dot(L[2], v), Dot(L[3], v)>>
AddV(a, b) == <<a[1] + b[1], a[2] + b[2], a[3] + b[3]>>
SubV(a, b) == <<a[1] - b[1], a[2] - b[2], a[3] - b[3]>>
Det(L) == L[1][1] * (L[2][2] * L[3][3] - L[2][3] * L[3][2])
        - L[1][2] * (L[2][1] * L[3][3] - L[2][3] * L[3][1])
        + L[1][3] * (L[2][1] * L[3][2] - L[2][2] * L[3][1])
Det3(a, b, c) == Det(<<a, b, c>>)
Abs(x) == IF x < 0 THEN -x ELSE x
RECURSIVE Gcd(_, _)
Gcd(a, b) == IF b = 0 THEN a ELSE Gcd(b, a % b)
\* non-negative rationals <<num, den>> in lowest terms
RMul(a, b) == LET n == a[1] * b[1]  d == a[2] * b[2]  g == Gcd(n, d) IN IF n = 0 THEN <<0, 1>> ELSE <<n \div g, d \div g>>
ROne == <<1, 1>>

\* a point in units of 1/F carries a fourth component: 1 while every division so far was exact
P3(p) == <<p[1], p[2], p[3]>>
Divs(x, d) == x % d = 0
\* the affine map e = [l, t, d] applied to a point p given in units of 1/F
StepPt(e, F, p) ==
    LET q == AddV(MulLV(e.l, p), <<F * e.t[1], F * e.t[2], F * e.t[3]>>)
    IN <<q[1] \div e.d, q[2] \div e.d, q[3] \div e.d,
         IF p[4] = 1 /\ Divs(q[1], e.d) /\ Divs(q[2], e.d) /\ Divs(q[3], e.d) THEN 1 ELSE 0>>

\* ------------------------------------------------------------- configuration
\* c.cfg: [parent |-> seq of parent index (0 = base), edge |-> seq of [l, t, d], geom |-> seq of
\*         geometry index (0 = none)], c.geoms: seq of [v |-> seq of points, f |-> seq of index triples,
\*         a2 |-> twice the area when it is an integer]
Nodes(c) == 1..Len(c.cfg.parent)
Inst(c) == {n \in Nodes(c) : c.cfg.geom[n] # 0}
RECURSIVE IsDescK(_, _, _, _)
IsDescK(c, n, a, k) == IF n = 0 \/ k = 0 THEN FALSE
                       ELSE IF c.cfg.parent[n] = a THEN TRUE ELSE IsDescK(c, c.cfg.parent[n], a, k - 1)
IsDesc(c, n, a) == IsDescK(c, n, a, Len(c.cfg.parent) + 1)
\* c.sub: 0, or the node whose subtree (the node itself included, at the identity) is placed relative to it
Sel(c) == IF c.sub = 0 THEN Inst(c) ELSE {n \in Inst(c) : n = c.sub \/ IsDesc(c, n, c.sub)}

\* a point of node n carried up the chain of edges into the frame of `root` (0 = the base frame)
RECURSIVE Up(_, _, _, _, _)
Up(c, n, root, p, k) == IF n = root \/ n = 0 \/ k = 0 THEN p
                        ELSE Up(c, c.cfg.parent[n], root, StepPt(c.cfg.edge[n], c.F, p), k - 1)
\* eager sequences (TLC evaluates function constructors lazily, tuples eagerly)
VtxSeq(c, n) ==
    LET g == c.geoms[c.cfg.geom[n]]
        RECURSIVE go(_)
        go(k) == IF k > Len(g.v) THEN <<>>
                 ELSE <<Up(c, n, c.sub, <<c.F * g.v[k][1], c.F * g.v[k][2], c.F * g.v[k][3], 1>>, Len(c.cfg.parent) + 1)>> \o go(k + 1)
    IN go(1)
Table0(c, S) ==
    LET RECURSIVE go(_)
        go(n) == IF n > Len(c.cfg.parent) THEN <<>> ELSE <<IF n \in S THEN VtxSeq(c, n) ELSE <<>> >> \o go(n + 1)
    IN go(1)
Range(s) == {s[k] : k \in 1..Len(s)}
MinC(P, j) == CHOOSE m \in {p[j] : p \in P} : \A p \in P : m <= p[j]
MaxC(P, j) == CHOOSE m \in {p[j] : p \in P} : \A p \in P : m >= p[j]
BoundsOf(P) == <<<<MinC(P, 1), MinC(P, 2), MinC(P, 3)>>, <<MaxC(P, 1), MaxC(P, 2), MaxC(P, 3)>>>>

\* ------------------------------------------------------------------ steps
\* st.k = "m": the affine map [l, t, d];  st.k = "rezero": move the centre of the bounding box of the
\* instances in scope to the origin;  scope: st.hi = 0: every instance, else the instances of nodes st.lo..st.hi
\* (the nodes that came from one operand of a sum)
InScope(st, n) == st.hi = 0 \/ (st.lo <= n /\ n <= st.hi)
MapSeq(Op(_), s) ==
    LET RECURSIVE go(_)
        go(k) == IF k > Len(s) THEN <<>> ELSE <<Op(s[k])>> \o go(k + 1)
    IN go(1)
StepTable(c, T, st) ==
    LET scope == UNION {Range(T[n]) : n \in {m \in 1..Len(T) : InScope(st, m)}}
        sh == IF st.k = "rezero" /\ scope # {}
              THEN LET B == BoundsOf(scope) IN AddV(B[1], B[2])
              ELSE <<0, 0, 0>>
        mv(p) == IF st.k = "rezero"
                 THEN <<p[1] - (sh[1] \div 2), p[2] - (sh[2] \div 2), p[3] - (sh[3] \div 2),
                        IF p[4] = 1 /\ Divs(sh[1], 2) /\ Divs(sh[2], 2) /\ Divs(sh[3], 2) THEN 1 ELSE 0>>
                 ELSE StepPt(st, c.F, p)
        RECURSIVE go(_)
        go(n) == IF n > Len(T) THEN <<>>
                 ELSE <<IF InScope(st, n) THEN MapSeq(mv, T[n]) ELSE T[n]>> \o go(n + 1)
    IN go(1)
RECURSIVE Fold(_, _, _)
Fold(c, T, k) == IF k > Len(c.steps) THEN T ELSE Fold(c, StepTable(c, T, c.steps[k]), k + 1)
\* the final table: node -> sequence of placed vertices (units of 1/F)
Final(c, S) == Fold(c, Table0(c, S), 1)

\* ------------------------------------------------------ quantities of a table
AllPts(T) == UNION {Range(T[n]) : n \in 1..Len(T)}
\* a triangle up to cyclic rotation, keeping orientation: its set of directed edges
TriKey(a, b, c) == {<<a, b>>, <<b, c>>, <<c, a>>}
\* orientation: an instance placed through a map of negative determinant (a mirror among its edges or steps)
\* is the re-wound copy, as Trimesh.apply_transform makes it (normals stay outward, the volume positive)
SgnOf(e) == IF Det(e.l) < 0 THEN -1 ELSE 1
RECURSIVE PathSgn(_, _, _, _)
PathSgn(c, n, root, k) == IF n = root \/ n = 0 \/ k = 0 THEN 1
                          ELSE SgnOf(c.cfg.edge[n]) * PathSgn(c, c.cfg.parent[n], root, k - 1)
RECURSIVE StepSgn(_, _, _)
StepSgn(c, n, k) == IF k > Len(c.steps) THEN 1
                    ELSE (IF c.steps[k].k = "m" /\ InScope(c.steps[k], n) THEN SgnOf(c.steps[k]) ELSE 1) * StepSgn(c, n, k + 1)
Sgn(c, n) == PathSgn(c, n, c.sub, Len(c.cfg.parent) + 1) * StepSgn(c, n, 1)
NodeTris(c, T, n) ==     \* oriented placed triangles of node n as <<a, b, c>>
    LET g == c.geoms[c.cfg.geom[n]]
        flip == Sgn(c, n) < 0
    IN [k \in 1..Len(g.f) |-> <<P3(T[n][g.f[k][1]]), P3(T[n][g.f[k][IF flip THEN 3 ELSE 2]]), P3(T[n][g.f[k][IF flip THEN 2 ELSE 3]])>>]
TriSeq(c, T, S) ==
    LET RECURSIVE Ser(_)
        Ser(R) == IF R = {} THEN <<>>
                  ELSE LET n == CHOOSE n \in R : TRUE IN NodeTris(c, T, n) \o Ser(R \ {n})
    IN Ser(S)
BagOf(s) == [x \in {s[k] : k \in 1..Len(s)} |-> Cardinality({k \in 1..Len(s) : s[k] = x})]
KeySeq(ts) == [k \in 1..Len(ts) |-> TriKey(ts[k][1], ts[k][2], ts[k][3])]
\* Scene.triangles moves the triangles of a mirrored instance without re-winding them (the baked copies of
\* dump / to_mesh are re-wound): where a mirror is involved and nothing was baked, triangles are compared
\* without orientation (c.obs.tris_unoriented)
UKeySeq(ts) == [k \in 1..Len(ts) |-> {ts[k][1], ts[k][2], ts[k][3]}]

\* six times the signed volume of a closed triangle list (sum of determinants with the origin)
RECURSIVE SumVol(_, _)
SumVol(g, k) == IF k = 0 THEN 0
                ELSE Det3(g.v[g.f[k][1]], g.v[g.f[k][2]], g.v[g.f[k][3]]) + SumVol(g, k - 1)
Vol6(g) == SumVol(g, Len(g.f))
\* volume / area factor of an instance: the product, edge by edge and step by step, of |det| / d^3
\* (for similarity maps: of the squared scale |row|^2 / d^2), kept in lowest terms
VolOf(e) == LET g == Gcd(Abs(Det(e.l)), e.d * e.d * e.d) IN <<Abs(Det(e.l)) \div g, (e.d * e.d * e.d) \div g>>
AreaOf(e) == LET q == Dot(e.l[1], e.l[1])  g == Gcd(q, e.d * e.d) IN <<q \div g, (e.d * e.d) \div g>>
OfK(kind, e) == IF kind = "vol" THEN VolOf(e) ELSE AreaOf(e)
RECURSIVE PathFac(_, _, _, _, _)
PathFac(c, kind, n, root, k) == IF n = root \/ n = 0 \/ k = 0 THEN ROne
                                ELSE RMul(OfK(kind, c.cfg.edge[n]), PathFac(c, kind, c.cfg.parent[n], root, k - 1))
RECURSIVE StepFac(_, _, _, _)
StepFac(c, kind, n, k) == IF k > Len(c.steps) THEN ROne
                          ELSE RMul(IF c.steps[k].k = "m" /\ InScope(c.steps[k], n) THEN OfK(kind, c.steps[k]) ELSE ROne, StepFac(c, kind, n, k + 1))
Fac(c, kind, n) == RMul(PathFac(c, kind, n, c.sub, Len(c.cfg.parent) + 1), StepFac(c, kind, n, 1))
\* sum over instances of  own * factor * unit  (unit = c.FV or c.FA must clear every denominator);
\* second component 1 iff every division was exact
OwnK(kind, g) == IF kind = "vol" THEN Vol6(g) ELSE g.a2
RECURSIVE SumFac(_, _, _, _)
SumFac(c, kind, unit, S) ==
    IF S = {} THEN <<0, 1>>
    ELSE LET n == CHOOSE n \in S : TRUE
             f == Fac(c, kind, n)
             r == SumFac(c, kind, unit, S \ {n})
         IN <<OwnK(kind, c.geoms[c.cfg.geom[n]]) * f[1] * (unit \div f[2]) + r[1], IF Divs(unit, f[2]) /\ r[2] = 1 THEN 1 ELSE 0>>

\* ---------------------------------------------------------- convex hull
\* c.obs.hull: [has, v |-> vertices (units of 1/F), f |-> faces (1-based)].  The reported mesh is the
\* hull of the placed points P iff its vertices are points of P, it is a closed surface (every directed
\* edge once, its reverse present), no face is degenerate and every point of P lies on the inner side
\* of (or on) the plane of every face.
HullOK(P, h) ==
    LET pt(k) == <<h.v[k][1], h.v[k][2], h.v[k][3]>>
        E == UNION {{<<h.f[j][1], h.f[j][2]>>, <<h.f[j][2], h.f[j][3]>>, <<h.f[j][3], h.f[j][1]>>} : j \in 1..Len(h.f)}
    IN /\ Len(h.f) >= 4
       /\ \A k \in 1..Len(h.v) : pt(k) \in P
       /\ Cardinality(E) = 3 * Len(h.f)
       /\ \A e \in E : <<e[2], e[1]>> \in E
       /\ \A j \in 1..Len(h.f) :
            LET a == pt(h.f[j][1])
                u == SubV(pt(h.f[j][2]), a)
                w == SubV(pt(h.f[j][3]), a)
                nz(x) == x[1] # 0 \/ x[2] # 0 \/ x[3] # 0
                cr == <<u[2] * w[3] - u[3] * w[2], u[3] * w[1] - u[1] * w[3], u[1] * w[2] - u[2] * w[1]>>
            IN /\ nz(cr)
               /\ \A p \in P : Dot(cr, SubV(p, a)) <= 0

\* ------------------------------------------------- first and second moments
\* closed oriented triangle list ts (F = 1):  24 * integral of x dV  and  120 * integral of x_i x_j dV
RECURSIVE M1(_, _, _)
M1(ts, j, k) == IF k = 0 THEN 0
                ELSE Det3(ts[k][1], ts[k][2], ts[k][3]) * (ts[k][1][j] + ts[k][2][j] + ts[k][3][j]) + M1(ts, j, k - 1)
RECURSIVE M2(_, _, _, _)
M2(ts, a, b, k) ==
    IF k = 0 THEN 0
    ELSE LET t == ts[k]
         IN Det3(t[1], t[2], t[3]) * (t[1][a] * t[1][b] + t[2][a] * t[2][b] + t[3][a] * t[3][b]
                                      + (t[1][a] + t[2][a] + t[3][a]) * (t[1][b] + t[2][b] + t[3][b]))
            + M2(ts, a, b, k - 1)
Cm24(ts) == <<M1(ts, 1, Len(ts)), M1(ts, 2, Len(ts)), M1(ts, 3, Len(ts))>>
\* 120 * inertia tensor about the origin of the base frame: <<Ixx, Iyy, Izz, Ixy, Ixz, Iyz>>
In120(ts) == LET n == Len(ts)
             IN <<M2(ts, 2, 2, n) + M2(ts, 3, 3, n), M2(ts, 1, 1, n) + M2(ts, 3, 3, n), M2(ts, 1, 1, n) + M2(ts, 2, 2, n),
                  -M2(ts, 1, 2, n), -M2(ts, 1, 3, n), -M2(ts, 2, 3, n)>>

\* ------------------------------------------------------------------ validator
\* c.obs: what the real scene reported (coordinates times F, 6*volume times FV, 2*area times FA)
ClauseFor(c, S) ==
    LET T == Final(c, S)
        A == AllPts(T)
        P == {P3(p) : p \in A}
        ts == TriSeq(c, T, S)
        vol == SumFac(c, "vol", c.FV, S)
        area == SumFac(c, "area", c.FA, S)
    IN IF S = {} THEN (IF c.obs.empty THEN "ok" ELSE "expected_empty_scene")
       ELSE IF c.obs.empty THEN "unexpected_empty_scene"
       ELSE IF \E p \in A : p[4] # 1 THEN "inexact"
       ELSE IF c.obs.bounds # BoundsOf(P) THEN "bounds"
       ELSE IF c.obs.has_tris /\ ~c.obs.tris_unoriented /\ BagOf(KeySeq(c.obs.tris)) # BagOf(KeySeq(ts)) THEN "triangles"
       ELSE IF c.obs.has_tris /\ c.obs.tris_unoriented /\ BagOf(UKeySeq(c.obs.tris)) # BagOf(UKeySeq(ts)) THEN "triangles"
       ELSE IF c.obs.has_vol /\ c.obs.vol_exc # "" THEN "volume_raised"
       ELSE IF c.obs.has_vol /\ vol[2] # 1 THEN "inexact"
       ELSE IF c.obs.has_vol /\ c.obs.vol6 # vol[1] THEN "volume"
       ELSE IF c.obs.has_area /\ c.obs.area_exc # "" THEN "area_raised"
       ELSE IF c.obs.has_area /\ area[2] # 1 THEN "inexact"
       ELSE IF c.obs.has_area /\ c.obs.area2 # area[1] THEN "area"
       ELSE IF c.obs.hull.has /\ c.obs.hull.exc # "" THEN "hull_raised"
       ELSE IF c.obs.hull.has /\ ~HullOK(P, c.obs.hull) THEN "hull"
       ELSE IF c.obs.mass.has /\ c.obs.mass.exc # "" THEN "mass_raised"
       ELSE IF c.obs.mass.has /\ (~c.obs.mass.cm_on \/ c.obs.mass.cm24 # Cm24(ts)) THEN "center_mass"
       ELSE IF c.obs.mass.has /\ (~c.obs.mass.in_on \/ c.obs.mass.in120 # In120(ts)) THEN "inertia"
       ELSE "ok"

\* As built, Scene.subscene(node) leaves out the geometry carried by `node` itself (it sits on the edge
\* from the parent of `node`, which is not part of the subscene).  An observation that is wrong for the
\* subtree but right for the strict descendants is named, so that the harness can attribute it.
Clause(c) ==
    LET cl == ClauseFor(c, Sel(c))
    IN IF cl # "ok" /\ cl # "inexact" /\ c.sub # 0 /\ c.sub \in Inst(c) /\ ClauseFor(c, Sel(c) \ {c.sub}) = "ok"
       THEN "subscene_drops_own_geometry" ELSE cl

Init == i = 1
Next == i < Len(Cases) /\ i' = i + 1
Report == LET c == Cases[i]  cl == IF c.exc # "" THEN "raised" ELSE Clause(c)
          IN IF cl # "ok" THEN PrintT(<<"REJECT", c.id, cl>>) ELSE TRUE
=============================================================================
