----------------------------- MODULE MeshCache -----------------------------
(***************************************************************************)
(* The hash-keyed memo cache of a Trimesh (caching.Cache + cache_decorator)*)
(* together with the library's own mutators, which keep hand-picked keys   *)
(* across a mutation ("exclude" lists) and transport some of them.         *)
(* Property C01: every read returns the value for the *current* data,      *)
(* whatever was read or mutated before.                                    *)
(*                                                                         *)
(* Abstract state                                                          *)
(*   ver      version of the mesh data (vertices, faces, overrides)        *)
(*   idcur    Cache.id_current: the version the cache believes it is for   *)
(*   ent[k]   for every key the data version its stored value is correct   *)
(*            for, or NoV when absent                                      *)
(*   objects: "m" (the mesh) and, after Copy, "c" (its copy); both are     *)
(*            modelled with the same record so histories can continue on   *)
(*            either side.                                                 *)
(* Keys are abstracted to classes with identical behaviour: the partition  *)
(* and the two tables below are supplied per run:                          *)
(*   Keep[mu]   keys the code leaves in the cache across mutator mu        *)
(*              (observed on the tree under test at check time)            *)
(*   Valid[mu]  keys whose kept/transported value is really the value for  *)
(*              the new data (the specification's dependency table)        *)
(* A key in Keep[mu] \ Valid[mu] is a stale read waiting to happen; TLC    *)
(* exhibits the history (a *predicted finding*, confirmed or refuted by    *)
(* replaying it on the real mesh).                                         *)
(***************************************************************************)
EXTENDS Integers, Sequences, FiniteSets, TLC, Json

CONSTANTS Keys,       \* key classes (strings)
          Mutators,   \* library mutators / mutation classes (strings)
          Keep,       \* [Mutators -> SUBSET Keys]
          Valid,      \* [Mutators -> SUBSET Keys]
          Locked,     \* SUBSET Mutators: mutators that start working inside the cache lock without
                      \* verifying first (observed on the tree; the intended design has none)
          Side,       \* [Keys -> SUBSET Keys]: keys a getter stores as a side effect of computing k
          CopyVerifies, \* TRUE: copy(include_cache) verifies the source cache first (intended)
          MaxDepth

VARIABLES obj,   \* [ {"m","c"} -> [alive, ver, idcur, ent] ]
          last,  \* <<>> or [o, k, tag, ver]
          hist

vars == <<obj, last, hist>>
NoV == -1
Objs == {"m", "c"}
Blank == [alive |-> FALSE, ver |-> 0, idcur |-> NoV, ent |-> [k \in Keys |-> NoV]]

\* Cache.verify(): dump everything when the id moved
Verified(o) == IF o.idcur # o.ver THEN [o EXCEPT !.ent = [k \in Keys |-> NoV], !.idcur = o.ver] ELSE o

Log(rec) == hist' = Append(hist, rec)

Init == /\ obj = [x \in Objs |-> IF x = "m" THEN [Blank EXCEPT !.alive = TRUE] ELSE Blank]
        /\ last = <<>> /\ hist = <<>>

\* property read through cache_decorator
Read(x, k) ==
    /\ obj[x].alive
    /\ LET o == Verified(obj[x])
           hit == o.ent[k] # NoV
           o2 == IF hit THEN o
                 ELSE [o EXCEPT !.ent = [j \in Keys |-> IF j = k \/ (j \in Side[k] /\ o.ent[j] = NoV)
                                                        THEN o.ver ELSE o.ent[j]]]
       IN /\ obj' = [obj EXCEPT ![x] = o2]
          /\ last' = [o |-> x, k |-> k, tag |-> o2.ent[k], ver |-> o2.ver]
    /\ Log([op |-> "read", o |-> x, k |-> k])

\* in-place edit or reassignment of vertices / faces by the user: only the data changes, and only the
\* data of x: the other object of a copy pair keeps its version and its entries (the replay instantiates
\* copy_cache ; edit of one side through every buffer-keeping route ; reads on the other side)
Edit(x) ==
    /\ obj[x].alive
    /\ obj' = [obj EXCEPT ![x].ver = @ + 1]
    /\ last' = <<>>
    /\ Log([op |-> "edit", o |-> x])

\* a library mutator: verify (it reads the cache), change the data, clear(exclude = Keep), id_set
\* (leaving a `with cache:` block also sets the id, which stamps whatever is still cached as valid)
Mutate(x, mu) ==
    /\ obj[x].alive
    /\ LET o == IF mu \in Locked THEN obj[x] ELSE Verified(obj[x])   \* `with cache:` skips verify()
           nv == o.ver + 1
       IN obj' = [obj EXCEPT ![x] =
              [o EXCEPT !.ver = nv, !.idcur = nv,
                        !.ent = [k \in Keys |->
                                   IF k \in Keep[mu] /\ o.ent[k] # NoV
                                   \* kept: right only if it was right before AND the transport is valid
                                   THEN (IF k \in Valid[mu] /\ o.ent[k] = o.ver THEN nv ELSE o.ent[k])
                                   ELSE NoV]]]
    /\ last' = <<>>
    /\ Log([op |-> "mutate", o |-> x, mu |-> mu])

\* copy.copy(mesh) / mesh.copy(include_cache=True): data deep-copied, cache dict shallow-copied
CopyWithCache ==
    /\ obj["m"].alive /\ ~obj["c"].alive
    /\ LET src == IF CopyVerifies THEN Verified(obj["m"]) ELSE obj["m"]
       IN obj' = [obj EXCEPT !["m"] = src,
                             !["c"] = [alive |-> TRUE, ver |-> src.ver, idcur |-> src.ver, ent |-> src.ent]]
    /\ last' = <<>>
    /\ Log([op |-> "copy_cache"])

\* mesh.copy() / copy.deepcopy: empty cache
CopyPlain ==
    /\ obj["m"].alive /\ ~obj["c"].alive
    /\ obj' = [obj EXCEPT !["c"] = [alive |-> TRUE, ver |-> obj["m"].ver, idcur |-> obj["m"].ver,
                                    ent |-> [k \in Keys |-> NoV]]]
    /\ last' = <<>>
    /\ Log([op |-> "copy_plain"])

Next == /\ Len(hist) < MaxDepth
        /\ \/ \E x \in Objs, k \in Keys : Read(x, k)
           \/ \E x \in Objs : Edit(x)
           \/ \E x \in Objs, mu \in Mutators : Mutate(x, mu)
           \/ CopyWithCache \/ CopyPlain

Spec == Init /\ [][Next]_vars

\* ------------------------------------------------------------- properties
NoStaleRead == last # <<>> => last.tag = last.ver
\* inductive core of the protocol (what makes NoStaleRead hold in the intended design)
EntriesAreForIdcur == \A x \in Objs : \A k \in Keys : obj[x].ent[k] # NoV => obj[x].ent[k] = obj[x].idcur
IdNotAhead == \A x \in Objs : obj[x].idcur <= obj[x].ver

\* a library mutator or a copy never refuses because of what has been read or cached before: the
\* actions are enabled in every state in which the object exists (the replay reports a call that raises
\* on the subject although it succeeds on a mesh freshly built from the same arrays)
MutatorsEnabled == /\ \A x \in Objs, mu \in Mutators : obj[x].alive => ENABLED Mutate(x, mu)
                   /\ (obj["m"].alive /\ ~obj["c"].alive) => (ENABLED CopyWithCache /\ ENABLED CopyPlain)

View == <<[x \in Objs |-> [alive |-> obj[x].alive, clean |-> obj[x].idcur = obj[x].ver,
                           ent |-> [k \in Keys |-> IF obj[x].ent[k] = NoV THEN 0
                                                   ELSE IF obj[x].ent[k] = obj[x].ver THEN 1
                                                   ELSE IF obj[x].ent[k] = obj[x].idcur THEN 2 ELSE 3]]],
          last # <<>> /\ last.tag # last.ver>>

EmitLeaf == (Len(hist) = MaxDepth) => PrintT(ToJson(hist))
EmitAll == PrintT(ToJson(hist))
=============================================================================
