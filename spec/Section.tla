------------------------------ MODULE Section ------------------------------
(***************************************************************************)
(* Plane sections and plane slices of a triangle mesh (property C11) in    *)
(* exact arithmetic, and a batch validator of recorded results of          *)
(* trimesh.intersections.mesh_plane / mesh_multiplane, Trimesh.section /   *)
(* section_multiplane and slice_plane (cap = False / True).                *)
(*                                                                         *)
(* Exact domain.  Mesh vertices V are lattice points (small integers), a   *)
(* plane is [n |-> integer normal, c2 |-> integer]: the points p with      *)
(* n.(2p) = c2, positive side n.(2p) >= c2 (so origins on the lattice and  *)
(* on the half lattice are both integers: c2 = n.(2o)).  Every coordinate  *)
(* the implementation returned was snapped by the harness to a rational    *)
(* (residual test) and is recorded as an integer over the per-record       *)
(* common denominator K ("the K-grid": recorded P stands for P/K).  The    *)
(* reference computes intersection points itself as exact rationals        *)
(* <<X, Y, Z, W>> with gcd normalisation; a corner of a reference polygon  *)
(* with area that is not on the K-grid cannot be among the recorded        *)
(* points, which is reported as a missing corner / missing segment.        *)
(* Magnitudes: lattice coordinates <= 3 (<= 5 for two seeds, which the     *)
(* harness caps only on grids K <= 32 resp. planes with small crossings),  *)
(* K <= 1000 for quadratic terms and K <= 128 where cubic terms are formed *)
(* (guarded by MODEL_LIMIT, which the harness turns into a machinery       *)
(* error): every product stays below 2^31, and TLC aborts on integer       *)
(* overflow rather than wrapping.  Scaled / translated presentations of a  *)
(* mesh are mapped back by the harness: the reference only sees lattices.  *)
(*                                                                         *)
(* What is stated (and nothing more):                                      *)
(*  section  - every recorded end point lies on the plane, every recorded  *)
(*             segment lies in one triangle of the (selected) surface;     *)
(*             when no selected triangle has an edge in the plane every    *)
(*             exact triangle/plane segment is among the recorded ones;    *)
(*             for a watertight mesh and a plane through no vertex every   *)
(*             end point has even degree in the recorded segments.         *)
(*  slice    - every output triangle lies in one input triangle, on the    *)
(*             non-negative side of every plane, with the orientation of   *)
(*             that triangle; for every selected input triangle f not      *)
(*             lying in a plane the vector areas of the output triangles   *)
(*             lying in f add up to the vector area of Clip+(f), the exact *)
(*             clip polygon (any triangulation is accepted); for the two   *)
(*             opposite slices by one plane the parts add up to f, face by *)
(*             face (a triangle lying IN the plane is in exactly one).     *)
(*  capped   - every triangle of a capped half is a piece of the positive  *)
(*             part of the surface or lies in the cutting plane;           *)
(*             6*volume(+) + 6*volume(-) = 6*volume for a watertight,      *)
(*             consistently wound solid (signed cones from the origin over *)
(*             the recorded triangles, as trimesh reports volume); each    *)
(*             half has the volume of the solid's part in that half space  *)
(*             (divergence theorem on the exact clip polygons, the exact   *)
(*             cap contributing through the closing vector area) - stated  *)
(*             for convex solids and for any solid cut in general position *)
(*             (no vertex on the plane), only counted as an observation    *)
(*             (NOTE_) for a non-convex solid cut through a vertex, where  *)
(*             the section polygon is pinched; every NON-EMPTY half of a   *)
(*             convex solid is watertight (every undirected edge of the    *)
(*             recorded face array occurs exactly twice).                  *)
(*  capped by two planes - the result of slicing by <<p1, p2>> with caps  *)
(*             is a half of the capped half of p1: every triangle is a     *)
(*             piece of the part of the surface on the non-negative side   *)
(*             of both planes or lies in one plane on the non-negative     *)
(*             side of the other; the volumes of the two halves (p2 and    *)
(*             its opposite) add up to the exact volume of the half of p1  *)
(*             for convex solids and when no vertex of the solid lies on   *)
(*             p1 and no vertex of its half (vertices kept and crossing    *)
(*             points) lies on p2 (otherwise the clause name ends in       *)
(*             _pinched and the harness attributes it to the known         *)
(*             finding about pinched section polygons); every non-empty    *)
(*             piece of a convex solid is watertight (_slit: three         *)
(*             vertices of the half of p1 lie on the line p1 /\ p2).       *)
(*  path     - for a watertight mesh and a plane through no vertex every   *)
(*             entity of the returned path is closed (c.popen = 0).        *)
(* Left unconstrained: isolated touching points of a section; sections     *)
(* when an edge lies in the plane (beyond soundness); which of the two     *)
(* opposite slices owns an in-plane triangle; what happens to unselected   *)
(* triangles when a face subset is sliced (they must only stay inside the  *)
(* original surface); in-plane triangles under several planes;             *)
(* watertightness of halves of non-convex solids and of empty halves; the  *)
(* face index reported with a segment (used only as a hint, any triangle   *)
(* containing the segment is accepted); how a section is subdivided into   *)
(* segments beyond containing every exact triangle/plane segment.          *)
(***************************************************************************)
\* NB clause names stay below 50 characters (TLC wraps PrintT output at 80 columns).
EXTENDS Integers, Sequences, FiniteSets, TLC, Json

Cases == ndJsonDeserialize("cases.ndjson")
VARIABLE i

\* ------------------------------------------------------------------ vectors
Dot(a, b) == a[1] * b[1] + a[2] * b[2] + a[3] * b[3]
Sub(a, b) == <<a[1] - b[1], a[2] - b[2], a[3] - b[3]>>
Add3(a, b) == <<a[1] + b[1], a[2] + b[2], a[3] + b[3]>>
Scale(k, a) == <<k * a[1], k * a[2], k * a[3]>>
Cross(a, b) == <<a[2] * b[3] - a[3] * b[2], a[3] * b[1] - a[1] * b[3], a[1] * b[2] - a[2] * b[1]>>
Det3(a, b, c) == Dot(a, Cross(b, c))
Zero3 == <<0, 0, 0>>
Range(s) == {s[k] : k \in 1..Len(s)}
Min2(a, b) == IF a <= b THEN a ELSE b
Max2(a, b) == IF a <= b THEN b ELSE a
SetMin(S) == CHOOSE m \in S : \A x \in S : m <= x
Abs(x) == IF x < 0 THEN -x ELSE x

\* sum of a function over 1..n : integers and integer triples
RECURSIVE SumI(_, _)
SumI(f, n) == IF n = 0 THEN 0 ELSE f[n] + SumI(f, n - 1)
RECURSIVE SumV(_, _)
SumV(f, n) == IF n = 0 THEN Zero3 ELSE Add3(f[n], SumV(f, n - 1))

\* ------------------------------------------------------------------- planes
\* sign of n.(p - o) for the K-grid point P (scaled by the positive factor 2K)
Side(pl, K, P) == 2 * Dot(pl.n, P) - pl.c2 * K
Opp(pl) == [n |-> <<-pl.n[1], -pl.n[2], -pl.n[3]>>, c2 |-> -pl.c2]

\* --------------------------------------------------------------------- mesh
\* c.V lattice vertices, c.F faces as 0-based index triples; face ids are 0-based
FaceIds(c) == 0..(Len(c.F) - 1)
Vtx(c, f, j) == c.V[c.F[f + 1][j] + 1]
FaceN(c, f) == Cross(Sub(Vtx(c, f, 2), Vtx(c, f, 1)), Sub(Vtx(c, f, 3), Vtx(c, f, 1)))     \* twice the vector area
Sel(c) == Range(c.sub)
\* signs of the three vertices of f against the plane
SideV(c, pl, f, j) == Side(pl, 1, Vtx(c, f, j))
OnPlaneCount(c, pl, f) == Cardinality({j \in 1..3 : SideV(c, pl, f, j) = 0})
InPlane(c, pl, f) == OnPlaneCount(c, pl, f) = 3
EdgeInPlane(c, pl, f) == OnPlaneCount(c, pl, f) >= 2

\* the K-grid point P lies in the closed triangle f (exact barycentric test: coplanar and on the
\* inner side of the three edges; all terms linear in K)
InFace(c, f, P) ==
    LET a == Vtx(c, f, 1)  b == Vtx(c, f, 2)  d == Vtx(c, f, 3)  N == FaceN(c, f)
        Pa == Sub(P, Scale(c.K, a))  Pb == Sub(P, Scale(c.K, b))  Pd == Sub(P, Scale(c.K, d))
    IN /\ Dot(N, Pa) = 0
       /\ Dot(Cross(Sub(b, a), Pa), N) >= 0
       /\ Dot(Cross(Sub(d, b), Pb), N) >= 0
       /\ Dot(Cross(Sub(a, d), Pd), N) >= 0

\* ------------------------------------------------- exact clipping of a polygon
\* exact rational points: <<X, Y, Z, W>> stands for (X, Y, Z) / W in lattice units, W > 0, reduced
RECURSIVE Gcd(_, _)
Gcd(a, b) == IF b = 0 THEN a ELSE Gcd(b, a % b)
Reduce(h) == LET g == Gcd(Gcd(Abs(h[1]), Abs(h[2])), Gcd(Abs(h[3]), h[4]))
             IN <<h[1] \div g, h[2] \div g, h[3] \div g, h[4] \div g>>
SideH(pl, h) == 2 * (pl.n[1] * h[1] + pl.n[2] * h[2] + pl.n[3] * h[3]) - pl.c2 * h[4]     \* sign of n.(p - o)
\* crossing of the segment P (side sP > 0) -- Q (side sQ < 0) with the plane
CrossH(P, sP, Q, sQ) ==
    Reduce(<<Q[1] * sP - P[1] * sQ, Q[2] * sP - P[2] * sQ, Q[3] * sP - P[3] * sQ, sP * Q[4] - sQ * P[4]>>)
\* Sutherland-Hodgman step: the part of the convex polygon (sequence of rational points) with Side >= 0
ClipStepH(poly, pl) ==
    LET n == Len(poly)
        s == TLCEval([k \in 1..n |-> SideH(pl, poly[k])])
        Piece(k) == LET k2 == (k % n) + 1
                        keep == IF s[k] >= 0 THEN <<poly[k]>> ELSE <<>>
                        cr == IF s[k] > 0 /\ s[k2] < 0 THEN <<CrossH(poly[k], s[k], poly[k2], s[k2])>>
                              ELSE IF s[k] < 0 /\ s[k2] > 0 THEN <<CrossH(poly[k2], s[k2], poly[k], s[k])>>
                              ELSE <<>>
                    IN keep \o cr
        RECURSIVE Cat(_)
        Cat(k) == IF k = 0 THEN <<>> ELSE Cat(k - 1) \o Piece(k)
    IN Cat(n)
RECURSIVE ClipAllH(_, _, _)
ClipAllH(poly, planes, k) == IF k > Len(planes) THEN poly ELSE ClipAllH(ClipStepH(poly, planes[k]), planes, k + 1)
FaceH(c, f) == [j \in 1..3 |-> <<Vtx(c, f, j)[1], Vtx(c, f, j)[2], Vtx(c, f, j)[3], 1>>]
\* a convex rational polygon (corners in order) has no area iff every fan triangle is flat; directions are
\* reduced to primitive integer vectors before the cross product so that the terms stay small
Prim(v) == LET g == Gcd(Gcd(Abs(v[1]), Abs(v[2])), Abs(v[3])) IN IF g = 0 THEN v ELSE <<v[1] \div g, v[2] \div g, v[3] \div g>>
DirH(P, Q) == Prim(<<Q[1] * P[4] - P[1] * Q[4], Q[2] * P[4] - P[2] * Q[4], Q[3] * P[4] - P[3] * Q[4]>>)
Flat(ph) == \A k \in 2..(Len(ph) - 1) : Cross(DirH(ph[1], ph[k]), DirH(ph[1], ph[k + 1])) = Zero3
\* a rational polygon on the K-grid; ok iff every corner is a K-grid point (otherwise it cannot have been
\* recorded); flat iff it has no area (then nothing of it needs to be recorded)
ToGrid(ph, K) == [ok |-> \A k \in 1..Len(ph) : K % ph[k][4] = 0, flat |-> Flat(ph),
                  poly |-> [k \in 1..Len(ph) |-> LET m == K \div ph[k][4] IN <<m * ph[k][1], m * ph[k][2], m * ph[k][3]>>]]
\* Clip+(f): the part of triangle f on the non-negative side of all planes
ClipFace(c, planes, f) == ToGrid(ClipAllH(FaceH(c, f), planes, 1), c.K)

\* twice the vector area / six times the signed volume (cone from the origin) of a polygon, by fan
PolyA2(p) == IF Len(p) < 3 THEN Zero3
             ELSE SumV([k \in 1..(Len(p) - 2) |-> Cross(Sub(p[k + 1], p[1]), Sub(p[k + 2], p[1]))], Len(p) - 2)
PolyFan6(p) == IF Len(p) < 3 THEN 0
               ELSE SumI([k \in 1..(Len(p) - 2) |-> Det3(p[1], p[k + 1], p[k + 2])], Len(p) - 2)

\* ------------------------------------------------- topology of a face array
\* (definitions in the style of spec/Topology.tla; that module declares a variable and is not extended)
Sorted(e) == <<Min2(e[1], e[2]), Max2(e[1], e[2])>>
EdgeOf(F, k) == LET f == (k - 1) \div 3  j == (k - 1) % 3 IN <<F[f + 1][j + 1], F[f + 1][((j + 1) % 3) + 1]>>
Edges(F) == [k \in 1..(3 * Len(F)) |-> EdgeOf(F, k)]
EdgesSorted(F) == [k \in 1..(3 * Len(F)) |-> Sorted(EdgeOf(F, k))]
Occ(S, e) == {k \in 1..Len(S) : S[k] = e}
Watertight(F) == LET S == TLCEval(EdgesSorted(F)) IN \A e \in Range(S) : Cardinality(Occ(S, e)) = 2
WindingConsistent(F) ==
    LET S == TLCEval(EdgesSorted(F))  E == TLCEval(Edges(F)) IN
    \A e \in Range(S) : LET o == Occ(S, e) IN Cardinality(o) = 2 => \A a, b \in o : a # b => E[a] = <<E[b][2], E[b][1]>>
NonDegenerate(c) == \A f \in FaceIds(c) : FaceN(c, f) # Zero3
Convex(c) == \A f \in FaceIds(c) : \A v \in 1..Len(c.V) : Dot(FaceN(c, f), Sub(c.V[v], Vtx(c, f, 1))) <= 0

\* facts about the input mesh that do not depend on the plane, computed once per seed name (all records of
\* one seed carry the same mesh: checked by RefSane)
MeshVol6(c) == SumI([k \in 1..Len(c.F) |-> Det3(Vtx(c, k - 1, 1), Vtx(c, k - 1, 2), Vtx(c, k - 1, 3))], Len(c.F))
SeedNames == {Cases[k].seed : k \in 1..Len(Cases)}
SeedCase(nm) == Cases[CHOOSE k \in 1..Len(Cases) : Cases[k].seed = nm]
SeedInfo == TLCEval([nm \in SeedNames |->
                LET c == SeedCase(nm) IN
                [V |-> c.V, F |-> c.F, nondeg |-> NonDegenerate(c), convex |-> Convex(c), vol6 |-> MeshVol6(c),
                 solid |-> Watertight(c.F) /\ WindingConsistent(c.F)]])
Info(c) == SeedInfo[c.seed]

\* ---------------------------------------------------------------- sections
\* exact intersection segment of triangle f with the plane, when it is a proper segment: the vertices of
\* Clip+(f) that lie on the plane (two of them).  Only used when no selected edge lies in the plane.
ExactSeg(c, pl, f) ==
    LET r == ClipFace(c, <<pl>>, f)
        on == {r.poly[k] : k \in {k \in 1..Len(r.poly) : Side(pl, c.K, r.poly[k]) = 0}}
    IN [ok |-> r.ok, seg |-> on]
Crosses(c, pl, f) == \E j, k \in 1..3 : SideV(c, pl, f, j) > 0 /\ SideV(c, pl, f, k) < 0

\* segs: sequence of <<P, Q>> K-grid end points, hint: sequence of face ids or -1
SegsClause(c, pl, segs, hint, what) ==
    LET sel == Sel(c)
        SegIn(k, f) == InFace(c, f, segs[k][1]) /\ InFace(c, f, segs[k][2])
        rec == {{segs[k][1], segs[k][2]} : k \in 1..Len(segs)}
        noEdge == \A f \in sel : ~EdgeInPlane(c, pl, f)
        cut == {f \in sel : Crosses(c, pl, f)}
        exact == TLCEval([f \in cut |-> ExactSeg(c, pl, f)])
        general == \A v \in 1..Len(c.V) : Side(pl, 1, c.V[v]) # 0
        Deg(P) == Cardinality({p \in (1..Len(segs)) \X (1..2) : segs[p[1]][p[2]] = P})
    IN
    IF \E k \in 1..Len(segs) : \E e \in 1..2 : Side(pl, c.K, segs[k][e]) # 0 THEN what \o "_point_off_plane"
    ELSE IF \E k \in 1..Len(segs) :
              ~((hint[k] \in sel /\ SegIn(k, hint[k])) \/ \E f \in sel : SegIn(k, f)) THEN what \o "_segment_off_surface"
    ELSE IF noEdge /\ \E f \in cut : ~exact[f].ok THEN what \o "_misses_part_of_intersection"
    ELSE IF noEdge /\ \E f \in cut : exact[f].seg \notin rec THEN what \o "_misses_part_of_intersection"
    ELSE IF general /\ sel = FaceIds(c) /\ Info(c).solid /\ \E k \in 1..Len(segs) : \E e \in 1..2 : Deg(segs[k][e]) % 2 = 1
         THEN what \o "_loops_not_closed"
    ELSE "ok"

\* c.segs / c.fidx: mesh_plane (or mesh_multiplane) with return_faces; c.psegs: the Path returned by
\* section / section_multiplane exploded into segments (c.haspath FALSE: not observed)
SectionClause(c) ==
    LET pl == c.planes[1]
        a == SegsClause(c, pl, c.segs, c.fidx, "section")
        general == \A v \in 1..Len(c.V) : Side(pl, 1, c.V[v]) # 0
    IN IF a # "ok" THEN a
       ELSE IF c.haspath THEN
            LET b == SegsClause(c, pl, c.psegs, [k \in 1..Len(c.psegs) |-> -1], "path") IN
            IF b # "ok" THEN b
            \* c.popen: entities of the returned path that are not closed curves (plus one if the path says it is not closed)
            ELSE IF general /\ Sel(c) = FaceIds(c) /\ Info(c).solid /\ c.popen > 0 THEN "path_entities_not_closed"
            ELSE "ok"
       ELSE "ok"

\* ------------------------------------------------------------------ slices
\* an output mesh o: o.v K-grid points, o.f 0-based index triples, o.src hint (input face id or -1) per triangle
WellFormed(o) == \A t \in 1..Len(o.f) : \A j \in 1..3 : o.f[t][j] >= 0 /\ o.f[t][j] < Len(o.v)
TriPts(o, t) == <<o.v[o.f[t][1] + 1], o.v[o.f[t][2] + 1], o.v[o.f[t][3] + 1]>>
TriA2(T) == Cross(Sub(T[2], T[1]), Sub(T[3], T[1]))
\* T lies in input triangle f; for a selected f also on the non-negative side of every plane
InPart(c, planes, f, T) ==
    \A j \in 1..3 : /\ InFace(c, f, T[j])
                    /\ (f \in Sel(c) => \A q \in 1..Len(planes) : Side(planes[q], c.K, T[j]) >= 0)
\* attribution of every output triangle: an input face id, -1 (in no face part), -2 (only with reversed normal)
Attr(c, planes, o) ==
    TLCEval([t \in 1..Len(o.f) |->
        LET T == TriPts(o, t)  h == o.src[t]
            Good(f) == InPart(c, planes, f, T) /\ Dot(FaceN(c, f), TriA2(T)) >= 0
        IN IF h \in FaceIds(c) /\ Good(h) THEN h
           ELSE LET G == {f \in FaceIds(c) : Good(f)} IN
                IF G # {} THEN SetMin(G)
                ELSE IF \E f \in FaceIds(c) : InPart(c, planes, f, T) THEN -2 ELSE -1])
FaceSum(o, attr, f) == LET ts == SelectSeq([t \in 1..Len(o.f) |-> t], LAMBDA t : attr[t] = f)
                       IN SumV([k \in 1..Len(ts) |-> TriA2(TriPts(o, ts[k]))], Len(ts))
Touched(c, planes, f) == \E q \in 1..Len(planes) : InPlane(c, planes[q], f)

SideClause(c, planes, o, attr, what) ==
    LET sel == {f \in Sel(c) : ~Touched(c, planes, f)}
        clip == TLCEval([f \in sel |-> ClipFace(c, planes, f)])
        allOk == \A f \in sel : clip[f].ok \/ clip[f].flat
        want(f) == IF clip[f].flat THEN Zero3 ELSE PolyA2(clip[f].poly)
        diff == TLCEval([f \in sel |-> IF allOk THEN Dot(FaceN(c, f), Sub(FaceSum(o, attr, f), want(f))) ELSE 0])
    IN
    IF \E t \in 1..Len(o.f) : attr[t] = -1 THEN what \o "_triangle_outside_positive_part"
    ELSE IF \E t \in 1..Len(o.f) : attr[t] = -2 THEN what \o "_triangle_orientation_reversed"
    ELSE IF ~allOk THEN what \o "_misses_corner_of_positive_part"
    ELSE IF \E f \in sel : diff[f] < 0 THEN what \o "_misses_part_of_positive_side"
    ELSE IF \E f \in sel : diff[f] > 0 THEN what \o "_covers_positive_part_twice"
    ELSE "ok"

\* c.pos: slice by c.planes; c.neg (c.hasneg): slice by the opposite of the single plane
SliceClause(c) ==
    IF ~WellFormed(c.pos) \/ (c.hasneg /\ ~WellFormed(c.neg)) THEN "slice_face_index_out_of_range"
    ELSE
    LET ap == Attr(c, c.planes, c.pos)
        a == SideClause(c, c.planes, c.pos, ap, "slice")
    IN IF a # "ok" THEN a
       ELSE IF ~c.hasneg THEN "ok"
       ELSE LET opp == <<Opp(c.planes[1])>>
                an == Attr(c, opp, c.neg)
                b == SideClause(c, opp, c.neg, an, "opposite")
            IN IF b # "ok" THEN b
               ELSE IF \E f \in Sel(c) :
                        Add3(FaceSum(c.pos, ap, f), FaceSum(c.neg, an, f)) # Scale(c.K * c.K, FaceN(c, f))
                    THEN "opposite_slices_do_not_add_up_to_face"
               ELSE "ok"

\* ------------------------------------------------------------ capped halves
Vol6(o) == SumI([t \in 1..Len(o.f) |-> LET T == TriPts(o, t) IN Det3(T[1], T[2], T[3])], Len(o.f))
UnitAxis(n) == {j \in 1..3 : Abs(n[j]) = 1}
\* exact clip of every face against the plane
HalfPolys(c, pl) == TLCEval([k \in 1..Len(c.F) |-> ClipFace(c, <<pl>>, k - 1)])
HalfOk(H) == \A k \in 1..Len(H) : H[k].ok
HalfA2(H) == SumV([k \in 1..Len(H) |-> PolyA2(H[k].poly)], Len(H))
\* twice (six times the volume of solid /\ half space), scaled by K^3: the clipped surface as cones from the
\* origin plus the closing cap, whose vector area is minus that of the clipped surface and which lies in
\* n.(2P) = c2*K
HalfVol12(c, pl, H) ==
    LET j == SetMin(UnitAxis(pl.n))
        alpha == HalfA2(H)[j] * pl.n[j]
    IN 2 * SumI([k \in 1..Len(H) |-> PolyFan6(H[k].poly)], Len(H)) - alpha * pl.c2 * c.K

\* a triangle of a capped half is a piece of the positive part of the surface or lies in the cutting plane
CapTriOk(c, pl, o, t) ==
    LET T == TriPts(o, t)  h == o.src[t]
        Good(f) == InPart(c, <<pl>>, f, T) /\ Dot(FaceN(c, f), TriA2(T)) >= 0
    IN \/ \A j \in 1..3 : Side(pl, c.K, T[j]) = 0
       \/ (h \in FaceIds(c) /\ Good(h))
       \/ \E f \in FaceIds(c) : Good(f)
CapClause(c) ==
    LET pl == c.planes[1]  K3 == c.K * c.K * c.K
        Hp == HalfPolys(c, pl)  Hn == HalfPolys(c, Opp(pl))
        general == \A v \in 1..Len(c.V) : Side(pl, 1, c.V[v]) # 0
        exactOk == UnitAxis(pl.n) # {} /\ HalfOk(Hp) /\ HalfOk(Hn)
        halfBad == 2 * Vol6(c.pos) # HalfVol12(c, pl, Hp) \/ 2 * Vol6(c.neg) # HalfVol12(c, Opp(pl), Hn)
    IN
    IF ~WellFormed(c.pos) \/ ~WellFormed(c.neg) THEN "capped_face_index_out_of_range"
    ELSE IF \E t \in 1..Len(c.pos.f) : ~CapTriOk(c, pl, c.pos, t) THEN "capped_triangle_not_on_surface_nor_in_plane"
    ELSE IF \E t \in 1..Len(c.neg.f) : ~CapTriOk(c, Opp(pl), c.neg, t) THEN "capped_triangle_not_on_surface_nor_in_plane"
    ELSE IF c.K > 128 THEN "MODEL_LIMIT_grid_too_fine_for_volumes"
    ELSE IF ~Info(c).solid THEN "ok"              \* not a solid: nothing stated
    ELSE IF Vol6(c.pos) + Vol6(c.neg) # K3 * Info(c).vol6 THEN "capped_volumes_do_not_add_up"
    \* each half has the volume of the solid's part in its half space: for convex solids, and for every solid
    \* cut in general position (no vertex on the plane: the section is a set of simple loops)
    ELSE IF (Info(c).convex \/ general) /\ exactOk /\ halfBad THEN "capped_half_is_not_volume_of_half_solid"
    ELSE IF c.note /\ exactOk /\ halfBad THEN "NOTE_nonconvex_half_volume_differs"
    ELSE IF Info(c).convex /\ Len(c.pos.f) > 0 /\ ~Watertight(c.pos.f) THEN "half_of_convex_solid_not_watertight"
    ELSE IF Info(c).convex /\ Len(c.neg.f) > 0 /\ ~Watertight(c.neg.f) THEN "half_of_convex_solid_not_watertight"
    ELSE "ok"

\* ------------------------------------------------ capped slices by two planes
\* c.planes = <<p1, p2>>; c.pos: capped slice by <<p1, p2>>; c.neg: capped slice by <<p1, Opp(p2)>>
\* a triangle of the result is a piece of the surface on the non-negative side of every plane, or lies in one
\* of the planes on the non-negative side of the others
CapTriOkM(c, planes, o, t) ==
    LET T == TriPts(o, t)  h == o.src[t]
        Good(f) == InPart(c, planes, f, T) /\ Dot(FaceN(c, f), TriA2(T)) >= 0
    IN \/ /\ \E q \in 1..Len(planes) : \A j \in 1..3 : Side(planes[q], c.K, T[j]) = 0
          /\ \A r \in 1..Len(planes) : \A j \in 1..3 : Side(planes[r], c.K, T[j]) >= 0
       \/ (h \in FaceIds(c) /\ Good(h))
       \/ \E f \in FaceIds(c) : Good(f)
\* the vertices of the capped half of p1 (exact rational points): vertices kept and crossing points
HalfPts(c, p1) == UNION {Range(ClipAllH(FaceH(c, f), <<p1>>, 1)) : f \in FaceIds(c)}
CapMultiClause(c) ==
    LET p1 == c.planes[1]  p2 == c.planes[2]
        P == <<p1, p2>>  N == <<p1, Opp(p2)>>
        Hp == HalfPolys(c, p1)
        exactOk == UnitAxis(p1.n) # {} /\ HalfOk(Hp)
        pts == HalfPts(c, p1)
        general == (\A v \in 1..Len(c.V) : Side(p1, 1, c.V[v]) # 0) /\ \A h \in pts : SideH(p2, h) # 0
        slit == Cardinality({h \in pts : SideH(p1, h) = 0 /\ SideH(p2, h) = 0}) >= 3
        sumBad == 2 * (Vol6(c.pos) + Vol6(c.neg)) # HalfVol12(c, p1, Hp)
        leaky == \/ Len(c.pos.f) > 0 /\ ~Watertight(c.pos.f)
                 \/ Len(c.neg.f) > 0 /\ ~Watertight(c.neg.f)
    IN
    IF ~WellFormed(c.pos) \/ ~WellFormed(c.neg) THEN "capped_face_index_out_of_range"
    ELSE IF \E t \in 1..Len(c.pos.f) : ~CapTriOkM(c, P, c.pos, t) THEN "capped_pair_triangle_off_surface_and_planes"
    ELSE IF \E t \in 1..Len(c.neg.f) : ~CapTriOkM(c, N, c.neg, t) THEN "capped_pair_triangle_off_surface_and_planes"
    ELSE IF c.K > 128 THEN "MODEL_LIMIT_grid_too_fine_for_volumes"
    ELSE IF ~Info(c).solid THEN "ok"
    ELSE IF exactOk /\ sumBad THEN
         IF Info(c).convex \/ general THEN "capped_pair_volumes_do_not_add_up" ELSE "capped_pair_volumes_do_not_add_up_pinched"
    ELSE IF Info(c).convex /\ leaky THEN
         IF slit THEN "quarter_of_convex_solid_not_watertight_slit" ELSE "quarter_of_convex_solid_not_watertight"
    ELSE "ok"

\* ---------------------------------------------------------------- validator
Clause(c) ==
    IF c.off # "" THEN "offlattice_" \o c.off
    ELSE CASE c.kind = "section" -> SectionClause(c)
           [] c.kind = "slice" -> SliceClause(c)
           [] c.kind = "cap" -> CapClause(c)
           [] c.kind = "capm" -> CapMultiClause(c)
           [] OTHER -> "unknown_kind"

Init == i = 1
Next == i < Len(Cases) /\ i' = i + 1
Report == LET c == Cases[i]  cl == IF c.exc # "" THEN "raised_" \o c.exc ELSE Clause(c)
          IN IF cl # "ok" THEN PrintT(<<"REJECT", c.id, cl>>) ELSE TRUE

\* internal sanity of the reference, evaluated on the recorded INPUTS only (a failure here is a defect of
\* the specification or of the seed library, never a finding about trimesh)
RefSane ==
    LET c == Cases[i]  pl == c.planes[1]
        Hp == HalfPolys(c, pl)  Hn == HalfPolys(c, Opp(pl))
        bad ==
          IF c.V # Info(c).V \/ c.F # Info(c).F THEN "seed_name_does_not_determine_the_mesh"
          ELSE IF ~Info(c).nondeg THEN "degenerate_input_face"
          ELSE IF \E f \in Sel(c) : f \notin FaceIds(c) THEN "selection_out_of_range"
          \* the two exact clips of a triangle partition it (whenever the crossings are grid points)
          ELSE IF \E f \in FaceIds(c) :
                    LET p == ClipFace(c, <<pl>>, f)  n == ClipFace(c, <<Opp(pl)>>, f) IN
                    ~InPlane(c, pl, f) /\ p.ok /\ n.ok /\ Add3(PolyA2(p.poly), PolyA2(n.poly)) # Scale(c.K * c.K, FaceN(c, f))
               THEN "clips_do_not_partition_the_triangle"
          \* seeds claimed to be solids are closed and consistently wound
          ELSE IF c.solid /\ ~Info(c).solid THEN "seed_is_not_a_solid"
          \* the clipped surface of a solid is closed by a cap parallel to the plane; half volumes add up
          ELSE IF c.kind = "cap" /\ c.K <= 128 /\ UnitAxis(pl.n) # {} /\ HalfOk(Hp) /\ HalfOk(Hn) THEN
               IF Cross(HalfA2(Hp), pl.n) # Zero3 THEN "closing_area_not_parallel_to_normal"
               ELSE IF HalfVol12(c, pl, Hp) + HalfVol12(c, Opp(pl), Hn) # 2 * c.K * c.K * c.K * Info(c).vol6
                    THEN "exact_half_volumes_do_not_add_up"
               ELSE IF HalfVol12(c, pl, Hp) < 0 \/ HalfVol12(c, Opp(pl), Hn) < 0 THEN "negative_exact_half_volume"
               ELSE "ok"
          ELSE "ok"
    IN IF bad # "ok" THEN PrintT(<<"REFSANE", c.id, bad>>) /\ FALSE ELSE TRUE
=============================================================================
