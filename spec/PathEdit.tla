----------------------------- MODULE PathEdit -----------------------------
(***************************************************************************)
(* trimesh.path.path.Path entity / vertex bookkeeping (component X04):     *)
(* remove_entities, remove_invalid, remove_duplicate_entities,             *)
(* merge_vertices, remove_unreferenced_vertices, replace_vertex_references,*)
(* process, explode, copy, concatenate / +, apply_transform, Entity        *)
(* reverse / point reversal, and the cached readers length, bounds,        *)
(* referenced_vertices, is_closed (through the cached vertex_graph).       *)
(*                                                                         *)
(* "Re-indexing never changes the drawing."  Two layers (DESIGN 2.2):      *)
(*  - property level: Draw(P) = the set of undirected lattice segments     *)
(*    (and 3-point arcs) obtained by resolving entity points through the   *)
(*    vertex array; RefVal(P, k) = what a reader must return as a function *)
(*    of the current path only; the ghost variable `want` is the drawing   *)
(*    the property demands after each operation (unchanged by clean-ups,   *)
(*    minus removed entities, union for concatenation, image for           *)
(*    transforms);                                                         *)
(*  - implementation shaped: vertices as a sequence, entities as a         *)
(*    sequence of index lists with attached layer / colour, the hash-keyed *)
(*    memo cache of Path (id = hash of vertices + direction-normalised     *)
(*    entity bytes), one action per public operation written the way the   *)
(*    code is written.  Deviations of the code from the intended behaviour *)
(*    are named switches (Dev..); Mut.. switches are spec self-test mutants. *)
(* Vertex ORDER after merge_vertices is not part of any contract           *)
(* (grouping.unique_rows: "the sort order isn't meaningful"), nor is the   *)
(* entity order after remove_duplicate_entities; the model uses first      *)
(* occurrence order and the replay compares up to a vertex bijection and   *)
(* through per-entity ghost ids.                                           *)
(***************************************************************************)
EXTENDS Integers, Sequences, FiniteSets, TLC, Json

CONSTANTS MaxDepth,            \* bound on history length
          Starts,              \* names of the initial drawings explored
          Ops,                 \* enabled operation families: remove, clean, mask, flip, reverse, explode, transform, copy, concat, read
          \* deviations of the code on the pinned tree (TRUE = as built)
          DevArcLen2,          \* Arc.length returns twice the arc length
          DevExplodeDropsColor,\* Line.explode copies the layer but not the colour
          DevEmptyRaises,      \* merge_vertices / process / + raise when there are vertices but no entity
          DevLoopRevNotDup,    \* a closed polyline and its reverse are not recognised as duplicates
          \* spec self-test mutants
          MutStaleRemove,      \* remove_entities marks the cache current
          MutTransformKeepsBounds, \* apply_transform carries `bounds` over
          MutUnrefNoRemap,     \* remove_unreferenced_vertices forgets to re-point the entities
          MutDedupeEnds        \* duplicates decided by the two end points only

VARIABLES cur,     \* the path under edit: [v, e, ck, c]
          stash,   \* a second path (copy / concatenation operand) or NoPath
          want,    \* ghost: the drawing the property demands for cur
          wantS,   \* ghost: same for stash
          last,    \* result of the last reader / whether the last op raised
          nuid,    \* next fresh entity id
          hist     \* history (emission / replay)

vars == <<cur, stash, want, wantS, last, nuid, hist>>
View == <<cur, stash, want, wantS, last, hist[1].start>>

Nil    == "-"
NoKey  == <<>>
CKeys  == {"length", "bounds", "refd", "vg"}
EmptyC == [k \in CKeys |-> <<>>]      \* <<>> = absent, <<x>> = the value x is stored
NoPath == [v |-> <<>>, e |-> <<>>, ck |-> NoKey, c |-> EmptyC, none |-> TRUE]
IsPath(P) == ~P.none

\* ------------------------------------------------------------------ helpers
Rev(s)   == [i \in 1..Len(s) |-> s[Len(s) + 1 - i]]
Range(s) == {s[i] : i \in 1..Len(s)}
Min(S)   == CHOOSE m \in S : \A x \in S : m <= x
Max(S)   == CHOOSE m \in S : \A x \in S : m >= x
LessP(a, b) == a[1] < b[1] \/ (a[1] = b[1] /\ a[2] < b[2])
RECURSIVE LessSeq(_, _)
LessSeq(s, t) == IF s = <<>> \/ t = <<>> THEN Len(s) < Len(t)
                 ELSE IF s[1] # t[1] THEN s[1] < t[1] ELSE LessSeq(Tail(s), Tail(t))
\* increasing enumeration of a finite set of integers
RECURSIVE SortedSeq(_)
SortedSeq(S) == IF S = {} THEN <<>> ELSE LET m == Min(S) IN <<m>> \o SortedSeq(S \ {m})
PosIn(s, x) == CHOOSE i \in 1..Len(s) : s[i] = x
RECURSIVE SumSeq(_)
SumSeq(s) == IF s = <<>> THEN 0 ELSE s[1] + SumSeq(Tail(s))
RECURSIVE Flatten(_)
Flatten(ss) == IF ss = <<>> THEN <<>> ELSE ss[1] \o Flatten(Tail(ss))
\* grouping.merge_runs: drop consecutive repeats
MergeRuns(s) == LET keep == {i \in 1..Len(s) : i = 1 \/ s[i] # s[i - 1]}
                    ks   == SortedSeq(keep)
                IN [j \in 1..Len(ks) |-> s[ks[j]]]
Keep(s, K) == LET ks == SortedSeq(K \cap (1..Len(s))) IN [j \in 1..Len(ks) |-> s[ks[j]]]

\* ------------------------------------------------- property level: drawing
\* a drawn element: <<"L", a, a, b, FALSE>> with a < b, or <<"A", a, m, b, closed>> with a <= b
SegOf(a, b) == IF LessP(a, b) THEN <<"L", a, a, b, FALSE>> ELSE <<"L", b, b, a, FALSE>>
IsArc(e) == e.k = "A"
EntShapes(v, e) ==
    IF \E i \in 1..Len(e.p) : e.p[i] \notin 1..Len(v) THEN {}        \* (only under the self-test mutants)
    ELSE IF IsArc(e)
    THEN IF Len(e.p) # 3 THEN {}
         ELSE LET a == v[e.p[1]]  m == v[e.p[2]]  b == v[e.p[3]] IN
              IF LessP(b, a) THEN {<<"A", b, m, a, e.cl>>} ELSE {<<"A", a, m, b, e.cl>>}
    ELSE {SegOf(v[e.p[i]], v[e.p[i + 1]]) : i \in {j \in 1..(Len(e.p) - 1) : v[e.p[j]] # v[e.p[j + 1]]}}
Draw(P) == UNION {EntShapes(P.v, P.e[i]) : i \in 1..Len(P.e)}

\* lattice symmetries of the plane: <<a, b, c, d, tx, ty>> : p -> (a x + b y + tx, c x + d y + ty)
ApplyG(g, p) == <<g[1] * p[1] + g[2] * p[2] + g[5], g[3] * p[1] + g[4] * p[2] + g[6]>>
ShapeG(g, s) == LET a == ApplyG(g, s[2])  m == ApplyG(g, s[3])  b == ApplyG(g, s[4]) IN
                IF s[1] = "L" THEN SegOf(a, b)
                ELSE IF LessP(b, a) THEN <<"A", b, m, a, s[5]>> ELSE <<"A", a, m, b, s[5]>>

\* ---------------------------------------------- property level: the readers
SqD(a, b) == (a[1] - b[1]) * (a[1] - b[1]) + (a[2] - b[2]) * (a[2] - b[2])
IsSq(n)   == \E k \in 0..60 : k * k = n
Root(n)   == CHOOSE k \in 0..60 : k * k = n
\* squared lengths of the segments of a polyline, in order (zero-length ones included)
LineSq(v, e) == [i \in 1..(Len(e.p) - 1) |-> SqD(v[e.p[i]], v[e.p[i + 1]])]
\* the arcs used here have their first and last control point diametrically opposite (even integer
\* diameter): an open arc is a half circle of length pi r, a closed one a circle of length 2 pi r
ArcR(v, e) == Root(SqD(v[e.p[1]], v[e.p[3]])) \div 2
ArcC(v, e) == <<(v[e.p[1]][1] + v[e.p[3]][1]) \div 2, (v[e.p[1]][2] + v[e.p[3]][2]) \div 2>>
\* length = a + b pi + sum of sqrt(r[i]) : integer part, coefficient of pi, non-square squared lengths
LengthOf(P, arcfactor) ==
    LET lines == Flatten([i \in 1..Len(P.e) |-> IF IsArc(P.e[i]) THEN <<>> ELSE LineSq(P.v, P.e[i])])
        arcs  == [i \in 1..Len(P.e) |-> IF IsArc(P.e[i])
                                          THEN arcfactor * ArcR(P.v, P.e[i]) * (IF P.e[i].cl THEN 2 ELSE 1)
                                          ELSE 0]
    IN [a |-> SumSeq([i \in 1..Len(lines) |-> IF IsSq(lines[i]) THEN Root(lines[i]) ELSE 0]),
        b |-> SumSeq(arcs),
        r |-> SortSeq(SelectSeq(lines, LAMBDA d : ~IsSq(d)), LAMBDA x, y : x < y)]

\* axis aligned box of an entity: every referenced point of a line; the true extent of a half circle
\* whose diameter is axis parallel (bulging towards its middle control point), or of a circle
EntBox(v, e) ==
    IF ~IsArc(e)
    THEN LET xs == {v[e.p[i]][1] : i \in 1..Len(e.p)}  ys == {v[e.p[i]][2] : i \in 1..Len(e.p)}
         IN <<Min(xs), Min(ys), Max(xs), Max(ys)>>
    ELSE LET c == ArcC(v, e)  r == ArcR(v, e)  m == v[e.p[2]]  a == v[e.p[1]]  b == v[e.p[3]] IN
         IF e.cl THEN <<c[1] - r, c[2] - r, c[1] + r, c[2] + r>>
         ELSE IF a[2] = b[2]                                    \* horizontal diameter
              THEN IF m[2] > c[2] THEN <<c[1] - r, c[2], c[1] + r, c[2] + r>>
                                  ELSE <<c[1] - r, c[2] - r, c[1] + r, c[2]>>
              ELSE IF m[1] > c[1] THEN <<c[1], c[2] - r, c[1] + r, c[2] + r>>
                                  ELSE <<c[1] - r, c[2] - r, c[1], c[2] + r>>
BoundsOf(P) ==
    IF Len(P.e) = 0 THEN <<>>                                    \* undefined for an empty drawing
    ELSE LET B == {EntBox(P.v, P.e[i]) : i \in 1..Len(P.e)} IN
         <<Min({b[1] : b \in B}), Min({b[2] : b \in B}), Max({b[3] : b \in B}), Max({b[4] : b \in B})>>
HasArc(P) == \E i \in 1..Len(P.e) : IsArc(P.e[i])

RefdOf(P) == UNION {Range(P.e[i].p) : i \in 1..Len(P.e)}

\* Entity.closed / nodes / end_points / is_valid
EClosed(e) == IF IsArc(e) THEN e.cl ELSE Len(e.p) > 2 /\ e.p[1] = e.p[Len(e.p)]
ENodes(e)  == [i \in 1..(Len(e.p) - 1) |-> <<e.p[i], e.p[i + 1]>>]
EEnds(e)   == <<e.p[1], e.p[Len(e.p)]>>
EValid(e)  == IF IsArc(e) THEN Cardinality(Range(e.p)) = 3 ELSE \E i \in 1..Len(e.p) : e.p[i] # e.p[1]
\* is_closed: every node of the graph of the entities that are not closed in themselves has degree 2
\* (an undirected simple graph: parallel edges collapse, a loop counts twice)
GraphEdges(P) == UNION {{{e.p[i], e.p[i + 1]} : i \in 1..(Len(e.p) - 1)} :
                        e \in {P.e[j] : j \in {q \in 1..Len(P.e) : ~EClosed(P.e[q])}}}
Degree(E, n) == Cardinality({d \in E : n \in d /\ Cardinality(d) = 2}) + (IF {n} \in E THEN 2 ELSE 0)
IsClosedOf(P) == LET E == GraphEdges(P) IN \A n \in UNION E : Degree(E, n) = 2

RefVal(P, k) == CASE k = "length" -> LengthOf(P, 1)
                  [] k = "bounds" -> BoundsOf(P)
                  [] k = "refd"   -> RefdOf(P)
                  [] k = "vg"     -> IsClosedOf(P)
ImplVal(P, k) == IF k = "length" THEN LengthOf(P, IF DevArcLen2 THEN 2 ELSE 1) ELSE RefVal(P, k)

\* which named deviation explains a value that differs from the reference
ReadDev(P, k, val) == IF val = RefVal(P, k) THEN <<>>
                      ELSE IF k = "length" /\ HasArc(P) /\ val = ImplVal(P, k) THEN <<"ArcLengthDoubled">>
                      ELSE <<"EmptyPathScaleRaises">>     \* a value kept across the failed process()

\* -------------------------------------------------- implementation: the cache
\* Entity._bytes: class name + points in a direction-normalised order (+ the closed flag of an arc)
CodePts(p) == IF p[1] > p[Len(p)] THEN p ELSE Rev(p)
CodeKey(e) == <<e.k, CodePts(e.p), IF IsArc(e) THEN e.cl ELSE FALSE>>
\* Path.__hash__ : the vertex array and the entity bytes (layer, colour, _direction are not hashed)
Key(P) == <<P.v, [i \in 1..Len(P.e) |-> CodeKey(P.e[i])]>>
Verify(P) == IF P.ck = Key(P) THEN P ELSE [P EXCEPT !.ck = Key(P), !.c = EmptyC]
\* cache_decorator: verify, then return the stored value or compute and store
DoRead(P, k) == LET Q == Verify(P) IN
                IF Q.c[k] # <<>> THEN [path |-> Q, val |-> Q.c[k][1]]
                ELSE LET x == ImplVal(Q, k) IN
                     IF k = "bounds" /\ x = <<>> THEN [path |-> Q, val |-> x]     \* ValueError: nothing stored
                     ELSE [path |-> [Q EXCEPT !.c[k] = <<x>>], val |-> x]

\* ------------------------------------------- implementation: the operations
WithE(P, es) == [P EXCEPT !.e = es]
\* remove_entities(ids): entities setter only; the hash changes, the next verify dumps the cache
RemoveOp(P, S) == LET Q == WithE(P, Keep(P.e, (1..Len(P.e)) \ S)) IN
                  IF MutStaleRemove THEN [Q EXCEPT !.ck = Key(Q)] ELSE Q
RemoveInvalidOp(P) == WithE(P, Keep(P.e, {i \in 1..Len(P.e) : EValid(P.e[i])}))

\* remove_duplicate_entities: first occurrence of every hash survives
IntendedKey(e) == <<e.k, IF LessSeq(Rev(e.p), e.p) THEN Rev(e.p) ELSE e.p, IF IsArc(e) THEN e.cl ELSE FALSE>>
DupKey(e, loops) == IF MutDedupeEnds THEN <<e.k, {e.p[1], e.p[Len(e.p)]}>>
                    ELSE IF loops THEN IntendedKey(e) ELSE CodeKey(e)
DedupeOp(P, loops) == WithE(P, Keep(P.e, {i \in 1..Len(P.e) :
                                  \A j \in 1..(i - 1) : DupKey(P.e[j], loops) # DupKey(P.e[i], loops)}))

\* the classes of mutually duplicate entities (by ghost id) the property speaks of
DupClasses(P) == {{P.e[j].u : j \in {q \in 1..Len(P.e) : IntendedKey(P.e[q]) = IntendedKey(P.e[i])}} : i \in 1..Len(P.e)}

\* merge_vertices: reads self.scale (-> extents -> bounds, through the cache), groups equal rows, keeps the
\* first occurrence of each group, re-points the entities, merges runs, folds a-b-a into a-b, drops lines
\* with fewer than two and arcs without three points
MergeRaises(P) == DevEmptyRaises /\ Len(P.v) > 0 /\ Len(P.e) = 0
MergeCore(P) ==
    LET v    == P.v
        rep  == [i \in 1..Len(v) |-> Min({j \in 1..Len(v) : v[j] = v[i]})]
        reps == SortedSeq(Range(rep))
        new  == [i \in 1..Len(v) |-> PosIn(reps, rep[i])]
        pts  == [i \in 1..Len(P.e) |->
                   LET e == P.e[i]  q == MergeRuns([j \in 1..Len(e.p) |-> new[e.p[j]]]) IN
                   IF ~IsArc(e) /\ Len(q) = 3 /\ q[1] = q[3] THEN SubSeq(q, 1, 2) ELSE q]
        ok   == {i \in 1..Len(P.e) : IF IsArc(P.e[i]) THEN Len(pts[i]) = 3 ELSE Len(pts[i]) >= 2}
    IN [P EXCEPT !.v = [j \in 1..Len(reps) |-> v[reps[j]]],
                 !.e = Keep([i \in 1..Len(P.e) |-> [P.e[i] EXCEPT !.p = pts[i]]], ok)]
MergeOp(P, raises) == IF Len(P.v) = 0 THEN P
                      ELSE IF raises /\ Len(P.e) = 0 THEN Verify(P)   \* self.scale verified the cache, then bounds raised
                      ELSE MergeCore(DoRead(P, "bounds").path)

\* remove_unreferenced_vertices: takes referenced_vertices from the cache (verify, then stored value or compute),
\* builds mask = -1 everywhere except the referenced indices, re-points, shortens.  With a current cache the
\* stored value is RefdOf; a stale value marked current (see ProcessOp) makes it index out of range (IndexError,
\* nothing changed yet) or keep the wrong vertices.  0 stands for the -1 of an index the mask does not know.
UnrefWith(Q, R) ==
    LET refs == SortedSeq(R) IN
    [Q EXCEPT !.v = [j \in 1..Len(refs) |-> Q.v[refs[j]]],
              !.e = [i \in 1..Len(Q.e) |->
                       IF MutUnrefNoRemap THEN Q.e[i]
                       ELSE [Q.e[i] EXCEPT !.p = [j \in 1..Len(Q.e[i].p) |->
                                                    IF Q.e[i].p[j] \in R THEN PosIn(refs, Q.e[i].p[j]) ELSE 0]]]]
UnrefRaises(P) == ~(DoRead(P, "refd").val \subseteq 1..Len(P.v))
UnrefOp(P) == LET r == DoRead(P, "refd") IN IF UnrefRaises(P) THEN r.path ELSE UnrefWith(r.path, r.val)
UnrefFresh(P) == LET Q == DoRead(Verify(P), "refd").path IN UnrefWith(Q, RefdOf(Q))

\* process: merge_vertices, remove_duplicate_entities, remove_unreferenced_vertices inside the cache lock;
\* the cache is emptied and marked current when the lock is left
\* (inside the lock nothing is verified: a `bounds` left in the cache by an earlier read - even a stale one -
\*  answers self.scale, and then nothing raises)
ProcRaises(P) == DevEmptyRaises /\ Len(P.v) > 0 /\ Len(P.e) = 0 /\ P.c["bounds"] = <<>>
ProcessOp(P, raises, loops) ==
    IF raises /\ Len(P.v) > 0 /\ Len(P.e) = 0 /\ P.c["bounds"] = <<>>
    THEN [P EXCEPT !.ck = Key(P)]      \* the exception leaves the lock: Cache.__exit__ marks whatever is stored as current
    ELSE LET Q == UnrefFresh(DedupeOp(MergeOp(P, FALSE), loops)) IN [Q EXCEPT !.c = EmptyC, !.ck = Key(Q)]

\* replace_vertex_references(mask): points := mask[points]
ReplaceOp(P, m) == WithE(P, [i \in 1..Len(P.e) |-> [P.e[i] EXCEPT !.p = [j \in 1..Len(P.e[i].p) |-> m[P.e[i].p[j]]]]])
\* vertices := vertices[perm] together with mask = inverse permutation: a pure re-indexing
ReindexOp(P, perm) == LET inv == [i \in 1..Len(P.v) |-> PosIn(perm, i)] IN
                      [ReplaceOp(P, inv) EXCEPT !.v = [j \in 1..Len(P.v) |-> P.v[perm[j]]]]

\* entity.points = entity.points[::-1]  /  entity.reverse()
FlipOp(P, i)    == [P EXCEPT !.e[i].p = Rev(P.e[i].p)]
ReverseOp(P, i) == [P EXCEPT !.e[i].d = -1]

\* Line.explode: one two-point Line per segment, layer copied (colour: see DevExplodeDropsColor);
\* any other entity: a copy of itself
Pieces(e, keepcol, u0) ==
    IF IsArc(e) THEN <<[e EXCEPT !.u = u0]>>
    ELSE [i \in 1..(Len(e.p) - 1) |->
            [k |-> "L", p |-> <<e.p[i], e.p[i + 1]>>, l |-> e.l, c |-> IF keepcol THEN e.c ELSE 0,
             cl |-> FALSE, d |-> 1, u |-> u0 + i - 1, o |-> e.o]]
NPieces(e) == IF IsArc(e) THEN 1 ELSE Len(e.p) - 1
\* explode the entities in I (Path.explode: all of them, cache cleared explicitly)
RECURSIVE ExplodeFrom(_, _, _, _, _)
ExplodeFrom(es, i, I, keepcol, u0) ==
    IF i > Len(es) THEN <<>>
    ELSE IF i \in I THEN Pieces(es[i], keepcol, u0) \o ExplodeFrom(es, i + 1, I, keepcol, u0 + NPieces(es[i]))
    ELSE <<es[i]>> \o ExplodeFrom(es, i + 1, I, keepcol, u0)
ExplodeCount(P, I) == SumSeq([i \in 1..Len(P.e) |-> IF i \in I THEN NPieces(P.e[i]) ELSE 0])

\* apply_transform: verify, carry the topological keys over, transform the vertices, clear, id_set
TransformOp(P, g) ==
    LET Q == Verify(P)
        R == [Q EXCEPT !.v = [i \in 1..Len(Q.v) |-> ApplyG(g, Q.v[i])]]
    IN [R EXCEPT !.ck = Key(R),
                 !.c = [k \in CKeys |-> IF k = "vg" \/ (MutTransformKeepsBounds /\ k = "bounds") THEN Q.c[k] ELSE <<>>]]

\* copy(): deep copy of entities and vertices, the verified cache is copied and marked current
CopyOf(P) == LET Q == Verify(P) IN [Q EXCEPT !.ck = Key(Q)]

\* concatenate([A, B]): vertices stacked, B's entities offset, then the constructor runs merge_vertices
ConcatRaw(A, B) ==
    [v |-> A.v \o B.v,
     e |-> A.e \o [i \in 1..Len(B.e) |->
                     [B.e[i] EXCEPT !.p = [j \in 1..Len(B.e[i].p) |-> B.e[i].p[j] + Len(A.v)]]],
     ck |-> NoKey, c |-> EmptyC, none |-> FALSE]

\* ----------------------------------------------------------- initial drawings
Ent(k, p, l, c, cl, u) == [k |-> k, p |-> p, l |-> l, c |-> c, cl |-> cl, d |-> 1, u |-> u, o |-> u]
DrawingV(name) ==
    CASE name = "sq"  -> << <<0, 0>>, <<4, 0>>, <<4, 3>>, <<0, 3>>, <<0, 0>>, <<2, 7>> >>
      [] name = "tri" -> << <<0, 0>>, <<3, 0>>, <<3, 4>>, <<0, 0>>, <<-1, -1>> >>
      [] name = "arc" -> << <<2, 0>>, <<0, 2>>, <<-2, 0>>, <<2, 0>>, <<0, -2>>, <<5, 5>> >>
      [] name = "pl"  -> << <<0, 0>>, <<1, 0>>, <<1, 2>>, <<1, 0>>, <<0, 0>>, <<3, 3>> >>
      [] name = "dup" -> << <<5, 5>>, <<0, 0>>, <<0, 2>> >>
DrawingE(name) ==
    CASE name = "sq"  -> << Ent("L", <<1, 2, 3>>, "a", 1, FALSE, 1), Ent("L", <<3, 4, 5>>, "b", 0, FALSE, 2),
                            Ent("L", <<2, 1>>, "a", 2, FALSE, 3), Ent("L", <<3, 3>>, "c", 0, FALSE, 4),
                            Ent("L", <<1, 3>>, "b", 1, FALSE, 5) >>
      [] name = "tri" -> << Ent("L", <<1, 2, 3, 1>>, "a", 1, FALSE, 1), Ent("L", <<1, 3, 2, 1>>, "b", 2, FALSE, 2),
                            Ent("L", <<2, 3>>, "a", 0, FALSE, 3), Ent("L", <<3, 2>>, "c", 1, FALSE, 4),
                            Ent("L", <<4, 2>>, "b", 0, FALSE, 5) >>
      [] name = "arc" -> << Ent("A", <<1, 2, 3>>, "a", 1, FALSE, 1), Ent("L", <<3, 4>>, "b", 0, FALSE, 2),
                            Ent("A", <<3, 2, 1>>, "a", 2, FALSE, 3), Ent("A", <<1, 5, 3>>, "c", 0, TRUE, 4) >>
      [] name = "pl"  -> << Ent("L", <<1, 2, 3>>, "a", 1, FALSE, 1), Ent("L", <<2, 4>>, "b", 0, FALSE, 2),
                            Ent("L", <<1, 2, 1>>, "c", 2, FALSE, 3), Ent("L", <<3, 4, 5>>, "a", 0, FALSE, 4),
                            Ent("L", <<5, 5>>, "b", 1, FALSE, 5) >>
      [] name = "dup" -> << Ent("L", <<2, 3>>, "a", 1, FALSE, 1), Ent("L", <<2, 3>>, "b", 2, FALSE, 2),
                            Ent("L", <<3, 2>>, "a", 0, FALSE, 3) >>
AllStarts == {"sq", "tri", "arc", "pl", "dup"}
StartPath(name) == [v |-> DrawingV(name), e |-> DrawingE(name), ck |-> NoKey, c |-> EmptyC, none |-> FALSE]
\* the data every entity must keep: by origin id (start drawings have at most 5 entities, ids 1..5)
Data0(name) == [i \in 1..Len(DrawingE(name)) |-> <<DrawingE(name)[i].l, DrawingE(name)[i].c>>]

\* the second path every history starts with (operand of + / concatenate): another drawing that shares a
\* coincident vertex with the first; its ghost ids are 11, 12, ...
Comp(name) == IF name = "dup" THEN "pl" ELSE "dup"
StashStart(name) == LET P == StartPath(Comp(name)) IN
                    [P EXCEPT !.e = [i \in 1..Len(P.e) |-> [P.e[i] EXCEPT !.u = 10 + i, !.o = 10 + i]]]
DataOf(name, o) == IF o > 10 THEN Data0(Comp(name))[o - 10] ELSE Data0(name)[o]

\* lattice symmetries offered to apply_transform: rotation by 90 degrees + shift, mirror in x, translation
Gs == << <<0, -1, 1, 0, 1, 0>>, <<-1, 0, 0, 1, 0, 0>>, <<1, 0, 0, 1, 2, -3>> >>

\* ------------------------------------------------------------------- emission
SnapE(e) == [k |-> e.k, p |-> e.p, l |-> e.l, c |-> e.c, cl |-> e.cl, u |-> e.u, o |-> e.o]
Snap(P) == IF ~IsPath(P) THEN [none |-> TRUE]
           ELSE [none |-> FALSE, v |-> P.v, e |-> [i \in 1..Len(P.e) |-> SnapE(P.e[i])],
                 dr |-> Draw(P)]
\* closing sweep: every reader and the per-entity derived values of the final state
Sweep(P) == IF ~IsPath(P) THEN [none |-> TRUE]
            ELSE [none |-> FALSE,
                  arc |-> HasArc(P),
                  reads |-> [k \in CKeys |-> [exp |-> RefVal(P, k), got |-> DoRead(P, k).val,
                                               dev |-> ReadDev(P, k, DoRead(P, k).val)]],
                  ents |-> [i \in 1..Len(P.e) |->
                              [u |-> P.e[i].u, closed |-> EClosed(P.e[i]), valid |-> EValid(P.e[i]),
                               ends |-> EEnds(P.e[i]), nodes |-> ENodes(P.e[i])]]]

\* ------------------------------------------------------------------- actions
start == hist[1].start
Log(rec) == hist' = Append(hist, rec)
Intended(pI, pA, raised) == IF ~raised /\ pI.v = pA.v /\ pI.e = pA.e THEN <<>> ELSE <<Snap(pI)>>
DevIf(pI, pA, id, raised) == IF ~raised /\ pI.v = pA.v /\ pI.e = pA.e THEN <<>> ELSE <<id>>
Quiet == last' = [k |-> Nil, val |-> Nil, ref |-> Nil, exc |-> FALSE, op |-> Nil]

Init == \E s \in Starts :
          /\ cur = StartPath(s) /\ stash = StashStart(s)
          /\ want = Draw(StartPath(s)) /\ wantS = Draw(StashStart(s))
          /\ last = [k |-> Nil, val |-> Nil, ref |-> Nil, exc |-> FALSE, op |-> Nil]
          /\ nuid = 21
          /\ hist = <<[op |-> "init", start |-> s, st |-> Snap(StartPath(s)), sst |-> Snap(StashStart(s))]>>

\* a clean-up (or any operation under which the drawing must not change): post state as built, intended
CleanStep(op, pA, pI, dev, raised, classes) ==
    /\ cur' = pA /\ UNCHANGED <<stash, wantS, nuid>>
    /\ want' = want
    /\ last' = [k |-> Nil, val |-> Nil, ref |-> Nil, exc |-> raised, op |-> op]
    /\ Log([op |-> op, st |-> Snap(pA), ist |-> Intended(pI, pA, raised), dev |-> DevIf(pI, pA, dev, raised),
             exc |-> raised, classes |-> classes,
             \* process() on a path without entities raises or not depending on what the unverified cache holds,
             \* which in turn depends on whether merge_vertices happened to reorder the vertices (not modelled)
             noent |-> DevEmptyRaises /\ Len(cur.v) > 0 /\ Len(cur.e) = 0])

RemoveEntities(S) ==
    /\ "remove" \in Ops /\ S \subseteq 1..Len(cur.e)
    /\ LET pA == RemoveOp(cur, S) IN
       /\ cur' = pA /\ UNCHANGED <<stash, wantS, nuid>>
       /\ want' = UNION {EntShapes(cur.v, cur.e[i]) : i \in (1..Len(cur.e)) \ S}
       /\ Quiet
       /\ Log([op |-> "remove", ids |-> SortedSeq(S), st |-> Snap(pA), ist |-> <<>>, dev |-> <<>>, exc |-> FALSE])
RemoveInvalid == "clean" \in Ops /\ CleanStep("remove_invalid", RemoveInvalidOp(cur), RemoveInvalidOp(cur), Nil, FALSE, {})
RemoveDup == "clean" \in Ops /\ CleanStep("dedupe", DedupeOp(cur, ~DevLoopRevNotDup), DedupeOp(cur, TRUE),
                                          "ClosedLoopReverseNotDuplicate", FALSE, DupClasses(cur))
Merge   == "clean" \in Ops /\ CleanStep("merge", MergeOp(cur, DevEmptyRaises), MergeOp(cur, FALSE),
                                        "EmptyPathScaleRaises", MergeRaises(cur), {})
Unref   == "clean" \in Ops /\ CleanStep("unref", UnrefOp(cur), UnrefFresh(cur), "EmptyPathScaleRaises", UnrefRaises(cur), {})
Process == /\ "clean" \in Ops
           /\ LET pA == ProcessOp(cur, DevEmptyRaises, ~DevLoopRevNotDup)  pI == ProcessOp(cur, FALSE, TRUE) IN
              CleanStep("process", pA, pI,
                     IF ProcRaises(cur) THEN "EmptyPathScaleRaises" ELSE "ClosedLoopReverseNotDuplicate",
                     ProcRaises(cur), DupClasses(MergeOp(cur, FALSE)))
\* masks: "twin" sends every vertex to the first vertex with the same coordinates (drawing unchanged);
\* "rot" is a cyclic shift of the indices (the drawing changes: it is whatever mask[points] resolves to)
TwinMask == [i \in 1..Len(cur.v) |-> Min({j \in 1..Len(cur.v) : cur.v[j] = cur.v[i]})]
RotMask  == [i \in 1..Len(cur.v) |-> (i % Len(cur.v)) + 1]
ReplaceTwin == /\ "mask" \in Ops /\ Len(cur.v) > 0
               /\ cur' = ReplaceOp(cur, TwinMask) /\ want' = want /\ UNCHANGED <<stash, wantS, nuid>> /\ Quiet
               /\ Log([op |-> "replace", mask |-> TwinMask, st |-> Snap(ReplaceOp(cur, TwinMask)),
                       ist |-> <<>>, dev |-> <<>>, exc |-> FALSE])
ReplaceRot  == /\ "mask" \in Ops /\ Len(cur.v) > 1 /\ ~HasArc(cur)
               /\ cur' = ReplaceOp(cur, RotMask) /\ want' = Draw(ReplaceOp(cur, RotMask))
               /\ UNCHANGED <<stash, wantS, nuid>> /\ Quiet
               /\ Log([op |-> "replace", mask |-> RotMask, st |-> Snap(ReplaceOp(cur, RotMask)),
                       ist |-> <<>>, dev |-> <<>>, exc |-> FALSE])
Reindex == /\ "mask" \in Ops /\ Len(cur.v) > 1
           /\ LET perm == Rev([i \in 1..Len(cur.v) |-> i])  pA == ReindexOp(cur, perm) IN
              /\ cur' = pA /\ want' = want /\ UNCHANGED <<stash, wantS, nuid>> /\ Quiet
              /\ Log([op |-> "reindex", perm |-> perm, st |-> Snap(pA), ist |-> <<>>, dev |-> <<>>, exc |-> FALSE])
Flip(i)    == /\ "flip" \in Ops /\ i \in 1..Len(cur.e)
              /\ cur' = FlipOp(cur, i) /\ want' = want /\ UNCHANGED <<stash, wantS, nuid>> /\ Quiet
              /\ Log([op |-> "flip", i |-> i, st |-> Snap(FlipOp(cur, i)), ist |-> <<>>, dev |-> <<>>, exc |-> FALSE])
Reverse(i) == /\ "reverse" \in Ops /\ i \in 1..Len(cur.e) /\ cur.e[i].d = 1
              /\ cur' = ReverseOp(cur, i) /\ want' = want /\ UNCHANGED <<stash, wantS, nuid>> /\ Quiet
              /\ Log([op |-> "reverse", i |-> i, st |-> Snap(ReverseOp(cur, i)), ist |-> <<>>, dev |-> <<>>, exc |-> FALSE])
\* explode one entity (Line.explode + entities setter) or all of them (Path.explode, which clears the cache)
Explode(I, all) ==
    /\ "explode" \in Ops /\ I # {} /\ I \subseteq 1..Len(cur.e)
    /\ LET eA == ExplodeFrom(cur.e, 1, I, ~DevExplodeDropsColor, nuid)
           eI == ExplodeFrom(cur.e, 1, I, TRUE, nuid)
           pA == IF all THEN [cur EXCEPT !.e = eA, !.c = EmptyC] ELSE WithE(cur, eA)
           pI == WithE(pA, eI) IN
       /\ cur' = pA /\ want' = want /\ UNCHANGED <<stash, wantS>>
       /\ nuid' = nuid + ExplodeCount(cur, I)
       /\ Quiet
       /\ Log([op |-> IF all THEN "explode_all" ELSE "explode", ids |-> SortedSeq(I), st |-> Snap(pA),
               ist |-> Intended(pI, pA, FALSE), dev |-> DevIf(pI, pA, "ExplodeDropsColor", FALSE), exc |-> FALSE])
Transform(n) ==
    /\ "transform" \in Ops /\ n \in 1..Len(Gs)
    /\ LET pA == TransformOp(cur, Gs[n]) IN
       /\ cur' = pA /\ want' = {ShapeG(Gs[n], s) : s \in want} /\ UNCHANGED <<stash, wantS, nuid>> /\ Quiet
       /\ Log([op |-> "transform", g |-> Gs[n], st |-> Snap(pA), ist |-> <<>>, dev |-> <<>>, exc |-> FALSE])
Copy == /\ "copy" \in Ops
        /\ cur' = Verify(cur) /\ stash' = CopyOf(cur) /\ wantS' = want /\ UNCHANGED <<want, nuid>> /\ Quiet
        /\ Log([op |-> "copy", st |-> Snap(cur), sst |-> Snap(cur), ist |-> <<>>, dev |-> <<>>, exc |-> FALSE])
Swap == /\ "copy" \in Ops /\ IsPath(stash)
        /\ cur' = stash /\ stash' = cur /\ want' = wantS /\ wantS' = want /\ UNCHANGED nuid /\ Quiet
        /\ Log([op |-> "swap", st |-> Snap(stash), sst |-> Snap(cur), ist |-> <<>>, dev |-> <<>>, exc |-> FALSE])
\* cur := cur + stash  (curfirst) or concatenate([stash, cur]); the copies of the stash's entities get fresh ids
Concat(curfirst) ==
    /\ "concat" \in Ops /\ IsPath(stash)
    /\ LET S2  == [stash EXCEPT !.e = [i \in 1..Len(stash.e) |-> [stash.e[i] EXCEPT !.u = nuid + i - 1]]]
           raw == IF curfirst THEN ConcatRaw(cur, S2) ELSE ConcatRaw(S2, cur)
           pA  == MergeOp(raw, DevEmptyRaises)
           pI  == MergeOp(raw, FALSE) IN
       /\ cur' = IF MergeRaises(raw) THEN cur ELSE pA
       /\ want' = want \cup wantS /\ UNCHANGED <<stash, wantS>>
       /\ nuid' = nuid + Len(stash.e)
       /\ last' = [k |-> Nil, val |-> Nil, ref |-> Nil, exc |-> MergeRaises(raw), op |-> "concat"]
       /\ Log([op |-> "concat", curfirst |-> curfirst,
               fresh |-> [i \in 1..Len(stash.e) |-> <<stash.e[i].u, nuid + i - 1>>],
               st |-> Snap(IF MergeRaises(raw) THEN cur ELSE pA), ist |-> Intended(pI, pA, MergeRaises(raw)),
               dev |-> DevIf(pI, pA, "EmptyPathScaleRaises", MergeRaises(raw)), exc |-> MergeRaises(raw)])
\* the cached readers
Read(k) ==
    /\ "read" \in Ops /\ k \in CKeys
    /\ LET r == DoRead(cur, k) IN
       /\ cur' = r.path /\ UNCHANGED <<stash, want, wantS, nuid>>
       /\ last' = [k |-> k, val |-> r.val, ref |-> RefVal(cur, k), exc |-> FALSE, op |-> "read"]
       /\ Log([op |-> "read", k |-> k, exp |-> RefVal(cur, k), got |-> r.val, arc |-> HasArc(cur),
               st |-> Snap(cur), ist |-> <<>>,
               dev |-> ReadDev(cur, k, r.val),
               exc |-> FALSE])

Bounded == Len(hist) <= MaxDepth
\* index sets offered to remove_entities / explode: the singletons, the first two, everything, nothing
IdSets == {{i} : i \in 1..Len(cur.e)} \cup {{1, 2} \cap (1..Len(cur.e)), 1..Len(cur.e), {}}
Next == /\ Bounded
        /\ \/ \E S \in IdSets : RemoveEntities(S)
           \/ RemoveInvalid \/ RemoveDup \/ Merge \/ Unref \/ Process
           \/ ReplaceTwin \/ ReplaceRot \/ Reindex
           \/ \E i \in 1..Len(cur.e) : Flip(i) \/ Reverse(i)
           \/ \E i \in 1..Len(cur.e) : Explode({i}, FALSE)
           \/ Explode(1..Len(cur.e), TRUE)
           \/ \E n \in 1..Len(Gs) : Transform(n)
           \/ Copy \/ Swap \/ Concat(TRUE) \/ Concat(FALSE)
           \/ \E k \in CKeys : Read(k)
Spec == Init /\ [][Next]_vars

\* ------------------------------------------------------------------ properties
Paths == {cur} \cup (IF IsPath(stash) THEN {stash} ELSE {})
\* (1a) every entity index is a vertex index
IndexInRange == \A P \in Paths : \A i \in 1..Len(P.e) : Range(P.e[i].p) \subseteq 1..Len(P.v)
\* (1b) the drawing is what the property-level rule says
DrawingIsWanted == Draw(cur) = want /\ (IsPath(stash) => Draw(stash) = wantS)
\* (2) layer and colour stay with the entity (pieces of an exploded polyline inherit them)
DataAttached == \A P \in Paths : \A i \in 1..Len(P.e) : <<P.e[i].l, P.e[i].c>> = DataOf(start, P.e[i].o)
\* (3)+(4) every read returns the value of the current drawing, whatever was read before
ReadIsCurrent == last.op = "read" => last.val = last.ref
\* after remove_duplicate_entities no entity is a copy or the reverse of another one
DedupeComplete == last.op \in {"dedupe", "process"} /\ ~last.exc =>
                    \A i, j \in 1..Len(cur.e) : i # j =>
                       ~(cur.e[i].k = cur.e[j].k /\ cur.e[i].cl = cur.e[j].cl
                         /\ (cur.e[i].p = cur.e[j].p \/ cur.e[i].p = Rev(cur.e[j].p)))
\* no operation of the list raises
NoRaise == ~last.exc
\* a valid cache holds current values (inductive strengthening of ReadIsCurrent)
CacheCoherent == \A P \in Paths : P.ck = Key(P) => \A k \in CKeys : P.c[k] # <<>> => P.c[k][1] = ImplVal(P, k)

EmitRec  == [h |-> hist, fin |-> Sweep(cur), sfin |-> Sweep(stash), sst |-> Snap(stash)]
EmitAll  == PrintT(ToJson(EmitRec))
EmitLeaf == (Len(hist) = MaxDepth + 1) => PrintT(ToJson(EmitRec))
OpsAll == {"remove", "clean", "mask", "flip", "reverse", "explode", "transform", "copy", "concat", "read"}
OpsCore  == {"remove", "clean", "read", "copy", "mask"}
OpsG1    == {"remove", "clean", "mask", "read"}
OpsG2    == {"clean", "explode", "flip", "read"}
OpsG3    == {"clean", "copy", "concat", "transform", "read"}
OpsRead  == {"read"}
OpsExplode == {"explode", "read"}
OpsClean == {"remove", "clean", "read"}
OpsMove  == {"transform", "read"}
StartSq == {"sq"}  StartTri == {"tri"}  StartArc == {"arc"}  StartPl == {"pl"}  StartDup == {"dup"}
=============================================================================
