------------------------------ MODULE CopyHeap ------------------------------
(***************************************************************************)
(* Copies of geometry objects (property C17).                              *)
(*                                                                         *)
(* An object is a record of fields; every field points to a mutable cell   *)
(* of a heap; a cell has a content version.  Derived values are memoised   *)
(* per object (a cache stamped with the content it was computed from).     *)
(* Copy(kind) creates the second object: for every field the copy either   *)
(* gets a new cell with equal content (deep), shares the original's cell   *)
(* (shallow), or is dropped / reset to a default (lossy).  Which of these  *)
(* happens per field is a CONSTANT: the intended design is "deep for every *)
(* field"; the design observed on the tree under test is supplied by the   *)
(* harness.                                                                *)
(*   Faithful : right after the copy both objects report the same value    *)
(*              for every field and every derived value                    *)
(*   Isolated : an edit of one object never changes anything the other     *)
(*              reports, now or later, whatever had been read before       *)
(***************************************************************************)
EXTENDS Integers, Sequences, FiniteSets, TLC, Json

CONSTANTS Fields,        \* field names (strings)
          Shared,        \* SUBSET Fields: fields whose cell the copy shares with the original
          Dropped,       \* SUBSET Fields: fields the copy does not carry over
          AdoptsUnverifiedCache,  \* TRUE: copy takes the source's memo without checking it is current
          MaxDepth

VARIABLES cell,     \* [Objs -> [Fields -> CellId]]
          content,  \* [CellId -> Nat]
          memo,     \* [Objs -> [Fields -> Int]]: content the derived value of that field was computed from, -1 none
          alive, seen, hist

vars == <<cell, content, memo, alive, seen, hist>>
Objs == {"a", "b"}
Cells == (Objs \X Fields)
Other(x) == IF x = "a" THEN "b" ELSE "a"
Log(r) == hist' = Append(hist, r)

\* what an object reports: stored fields and derived values (recomputed when the memo is not current)
Report(x) == [f \in Fields |-> content[cell[x][f]]]
Derived(x) == [f \in Fields |-> IF memo[x][f] # -1 THEN memo[x][f] ELSE content[cell[x][f]]]

Init == /\ cell = [x \in Objs |-> [f \in Fields |-> <<x, f>>]]
        /\ content = [c \in Cells |-> 0]
        /\ memo = [x \in Objs |-> [f \in Fields |-> -1]]
        /\ alive = {"a"}
        /\ seen = <<>>
        /\ hist = <<>>

\* read a derived value: verify the memo against the current content first (hash-keyed cache)
ReadDerived(x, f) ==
    /\ x \in alive
    /\ memo' = [memo EXCEPT ![x][f] = content[cell[x][f]]]
    /\ seen' = [x |-> x, f |-> f, got |-> content[cell[x][f]]]
    /\ UNCHANGED <<cell, content, alive>>
    /\ Log([op |-> "read", x |-> x, f |-> f])

\* user edit of a field of one object (in place, or through the API)
Edit(x, f) ==
    /\ x \in alive
    /\ content' = [content EXCEPT ![cell[x][f]] = @ + 1]
    \* the owner's memo for this field is invalidated by its hash; a sharer's memo is NOT
    /\ memo' = [memo EXCEPT ![x][f] = -1]
    /\ seen' = <<>>
    /\ UNCHANGED <<cell, alive>>
    /\ Log([op |-> "edit", x |-> x, f |-> f])

\* an in-place edit that the source's memo has not noticed yet, followed by nothing: the state in
\* which copying the memo over is dangerous
EditUnnoticed(f) ==
    /\ "b" \notin alive
    /\ memo["a"][f] # -1
    /\ content' = [content EXCEPT ![cell["a"][f]] = @ + 1]
    /\ UNCHANGED <<cell, memo, alive>>      \* memo stays (it is only dropped at the next verify)
    /\ seen' = <<>>
    /\ Log([op |-> "edit_unnoticed", x |-> "a", f |-> f])

Copy ==
    /\ "b" \notin alive
    /\ alive' = {"a", "b"}
    /\ cell' = [cell EXCEPT !["b"] = [f \in Fields |-> IF f \in Shared THEN cell["a"][f] ELSE <<"b", f>>]]
    /\ content' = [c \in Cells |->
                     IF c[1] = "b" /\ c[2] \notin Dropped THEN content[cell["a"][c[2]]]
                     ELSE IF c[1] = "b" THEN 0 ELSE content[c]]
    /\ memo' = [memo EXCEPT !["b"] = [f \in Fields |->
                     IF AdoptsUnverifiedCache THEN memo["a"][f]
                     ELSE IF memo["a"][f] = content[cell["a"][f]] THEN memo["a"][f] ELSE -1]]
    /\ seen' = <<>>
    /\ Log([op |-> "copy"])

Next == /\ Len(hist) < MaxDepth
        /\ \/ \E x \in Objs, f \in Fields : ReadDerived(x, f) \/ Edit(x, f)
           \/ \E f \in Fields : EditUnnoticed(f)
           \/ Copy

Spec == Init /\ [][Next]_vars

\* ------------------------------------------------------------- properties
Faithful == (alive = Objs /\ Len(hist) > 0 /\ hist[Len(hist)].op = "copy") =>
               /\ Report("b") = Report("a")
               /\ \A f \in Fields : (memo["b"][f] # -1 => memo["b"][f] = content[cell["b"][f]])
Isolated == [][\A x \in Objs, f \in Fields :
                 (alive = Objs /\ Edit(x, f)) => Report(Other(x))' = Report(Other(x))]_vars

EmitLeaf == (Len(hist) = MaxDepth) => PrintT(ToJson(hist))
View == <<cell, [c \in Cells |-> content[c]], memo, alive>>

F3 == {"geom", "meta", "param"}
F2 == {"geom", "meta"}
None0 == {}
ShMeta == {"meta"}
DrParam == {"param"}
=============================================================================
