------------------------------ MODULE CopyHeap ------------------------------
(***************************************************************************)
(* Copies of geometry objects (property C17).                              *)
(*                                                                         *)
(* An object is a record of fields; every field points to a mutable cell   *)
(* of a heap; a cell has a content version.  Derived values are memoised   *)
(* per object (a cache stamped with the content it was computed from).     *)
(* A memoised derived value is itself an OBJECT (a hull mesh, a bounding   *)
(* primitive, a spatial index, a list): it has an identity, it can be      *)
(* edited by whoever obtained it, and it may keep a live view of the cell  *)
(* it was computed from.                                                   *)
(* Copy(src) creates the next object: for every field the copy either      *)
(* gets a new cell with equal content (deep), shares the source's cell     *)
(* (shallow), or is dropped / reset to a default (lossy); a memo that is   *)
(* handed over holds either private copies of the derived objects or the   *)
(* very same objects.  Which of these happens is a CONSTANT: the intended  *)
(* design is "deep for every field, private derived objects"; deviations   *)
(* are switched on by the harness to show that each is detectable.         *)
(* Copies can be copied again (a -> b -> c, or a -> b and a -> c).         *)
(*   Faithful : right after a copy the new object and its source report    *)
(*              the same value for every field and every derived value     *)
(*   Isolated : an edit of one object - of a field or of a derived object  *)
(*              it handed out - never changes anything another object      *)
(*              reports, now or later, whatever had been read before       *)
(***************************************************************************)
EXTENDS Integers, Sequences, FiniteSets, TLC, Json, SequencesExt

CONSTANTS Objs,          \* object names, a subset of {"a","b","c"}; "a" exists initially
          Fields,        \* field names (strings)
          Shared,        \* SUBSET Fields: fields whose cell the copy shares with the original
          Dropped,       \* SUBSET Fields: fields the copy does not carry over
          AdoptsUnverifiedCache,  \* TRUE: copy takes the source's memo without checking it is current
          SharesDerived,          \* TRUE: a memo handed over holds the same derived objects (not copies)
          DerivedViewsSource,     \* TRUE: a derived object reads the cell it was computed from when queried
          DerivedEdits,           \* TRUE: histories include edits of derived objects
          MaxDepth

VARIABLES cell,     \* [Objs -> [Fields -> CellId]]
          content,  \* [CellId -> Nat]
          memo,     \* [Objs -> [Fields -> Int]]: content the derived value of that field was computed from, -1 none
          dobj,     \* [Objs -> [Fields -> Nat]]: identity of the derived object held in the memo, 0 none
          dedits,   \* Seq(Nat): per derived object, how many times it was edited
          dsrc,     \* Seq(CellId): per derived object, the cell it was computed from
          alive, seen, hist

vars == <<cell, content, memo, dobj, dedits, dsrc, alive, seen, hist>>
Cells == (Objs \X Fields)
Rank(x) == IF x = "a" THEN 1 ELSE IF x = "b" THEN 2 ELSE 3
Fresh == CHOOSE x \in Objs \ alive : \A y \in Objs \ alive : Rank(x) <= Rank(y)
FS == SetToSeq(Fields)
Idx(f) == CHOOSE i \in 1..Len(FS) : FS[i] = f
Log(r) == hist' = Append(hist, r)

\* what an object reports: stored fields ...
Report(x) == [f \in Fields |-> content[cell[x][f]]]
\* ... and derived values: the memoised object if the memo is current (the cache is keyed by a
\* hash of the data, so a memo that is not current is never served), else a fresh computation
Valid(x, f) == dobj[x][f] # 0 /\ memo[x][f] = content[cell[x][f]]
DReport(x) == [f \in Fields |->
                 IF Valid(x, f)
                 THEN [base |-> IF DerivedViewsSource THEN content[dsrc[dobj[x][f]]] ELSE memo[x][f],
                       edits |-> dedits[dobj[x][f]]]
                 ELSE [base |-> content[cell[x][f]], edits |-> 0]]

Init == /\ cell = [x \in Objs |-> [f \in Fields |-> <<x, f>>]]
        /\ content = [c \in Cells |-> 0]
        /\ memo = [x \in Objs |-> [f \in Fields |-> -1]]
        /\ dobj = [x \in Objs |-> [f \in Fields |-> 0]]
        /\ dedits = <<>>
        /\ dsrc = <<>>
        /\ alive = {"a"}
        /\ seen = <<>>
        /\ hist = <<>>

\* read a derived value: verify the memo against the current content first (hash-keyed cache)
ReadDerived(x, f) ==
    /\ x \in alive
    /\ IF Valid(x, f)
       THEN UNCHANGED <<memo, dobj, dedits, dsrc>>
       ELSE /\ memo' = [memo EXCEPT ![x][f] = content[cell[x][f]]]
            /\ dobj' = [dobj EXCEPT ![x][f] = Len(dedits) + 1]
            /\ dedits' = Append(dedits, 0)
            /\ dsrc' = Append(dsrc, cell[x][f])
    /\ seen' = [x |-> x, f |-> f, got |-> content[cell[x][f]]]
    /\ UNCHANGED <<cell, content, alive>>
    /\ Log([op |-> "read", x |-> x, f |-> f])

\* user edit of a field of one object (in place, or through the API)
Edit(x, f) ==
    /\ x \in alive
    /\ content' = [content EXCEPT ![cell[x][f]] = @ + 1]
    \* the owner's memo for this field is invalidated by its hash; a sharer's memo is NOT
    /\ memo' = [memo EXCEPT ![x][f] = -1]
    /\ dobj' = [dobj EXCEPT ![x][f] = 0]
    /\ seen' = <<>>
    /\ UNCHANGED <<cell, alive, dedits, dsrc>>
    /\ Log([op |-> "edit", x |-> x, f |-> f])

\* an in-place edit that the source's memo has not noticed yet, followed by nothing: the state in
\* which copying the memo over is dangerous (only while a copy can still be made)
EditUnnoticed(x, f) ==
    /\ x \in alive
    /\ alive # Objs
    /\ \A y \in alive : Rank(y) <= Rank(x)     \* the youngest object: the one without copies yet
    /\ memo[x][f] # -1
    /\ content' = [content EXCEPT ![cell[x][f]] = @ + 1]
    /\ UNCHANGED <<cell, memo, dobj, dedits, dsrc, alive>>   \* memo stays (it is only dropped at the next verify)
    /\ seen' = <<>>
    /\ Log([op |-> "edit_unnoticed", x |-> x, f |-> f])

\* edit of a derived object obtained from x (x.hull.vertices[0] += 1): only what x was served can be edited
EditDerived(x, f) ==
    /\ DerivedEdits
    /\ x \in alive
    /\ Valid(x, f)
    /\ dedits' = [dedits EXCEPT ![dobj[x][f]] = @ + 1]
    /\ seen' = <<>>
    /\ UNCHANGED <<cell, content, memo, dobj, dsrc, alive>>
    /\ Log([op |-> "edit_derived", x |-> x, f |-> f])

Keeps(src, f) == /\ memo[src][f] # -1
                 /\ (AdoptsUnverifiedCache \/ memo[src][f] = content[cell[src][f]])

Copy(src) ==
    /\ src \in alive
    /\ alive # Objs
    /\ LET dst == Fresh
           n == Len(dedits)
           newcell == [f \in Fields |-> IF f \in Shared THEN cell[src][f] ELSE <<dst, f>>]
       IN
       /\ alive' = alive \cup {dst}
       /\ cell' = [cell EXCEPT ![dst] = newcell]
       /\ content' = [c \in Cells |->
                        IF c[1] = dst /\ c[2] \notin Dropped THEN content[cell[src][c[2]]]
                        ELSE IF c[1] = dst THEN 0 ELSE content[c]]
       /\ memo' = [memo EXCEPT ![dst] = [f \in Fields |-> IF Keeps(src, f) THEN memo[src][f] ELSE -1]]
       /\ dobj' = [dobj EXCEPT ![dst] = [f \in Fields |->
                        IF Keeps(src, f) /\ dobj[src][f] # 0
                        THEN (IF SharesDerived THEN dobj[src][f] ELSE n + Idx(f))
                        ELSE 0]]
       \* private copies of the derived objects (allocated for every field, unused ones stay unreferenced)
       /\ dedits' = dedits \o [i \in 1..Len(FS) |->
                        IF dobj[src][FS[i]] # 0 THEN dedits[dobj[src][FS[i]]] ELSE 0]
       /\ dsrc' = dsrc \o [i \in 1..Len(FS) |-> newcell[FS[i]]]
       /\ seen' = <<>>
       /\ Log([op |-> "copy", src |-> src, dst |-> dst])

Next == /\ Len(hist) < MaxDepth
        /\ \/ \E x \in Objs, f \in Fields : ReadDerived(x, f) \/ Edit(x, f) \/ EditUnnoticed(x, f) \/ EditDerived(x, f)
           \/ \E x \in Objs : Copy(x)

Spec == Init /\ [][Next]_vars

\* ------------------------------------------------------------- properties
LastOp == hist[Len(hist)]
\* the stored fields agree, every memo handed over is current, and every derived value the new
\* object reports is a value of its own data
Faithful == (Len(hist) > 0 /\ LastOp.op = "copy") =>
               /\ Report(LastOp.dst) = Report(LastOp.src)
               /\ \A f \in Fields : (memo[LastOp.dst][f] # -1 => memo[LastOp.dst][f] = content[cell[LastOp.dst][f]])
               /\ \A f \in Fields : DReport(LastOp.dst)[f].base = content[cell[LastOp.dst][f]]
Isolated == [][\A x \in Objs, f \in Fields :
                 (Edit(x, f) \/ EditUnnoticed(x, f) \/ EditDerived(x, f)) =>
                     \A o \in alive \ {x} : Report(o)' = Report(o) /\ DReport(o)' = DReport(o)]_vars

EmitLeaf == (Len(hist) = MaxDepth) => PrintT(ToJson(hist))
\* derived objects are compared up to their identity: what matters is what each slot holds and which slots hold
\* the same object (unreferenced derived objects are garbage)
View == <<cell, [c \in Cells |-> content[c]], memo, alive,
          [s \in Cells |-> IF dobj[s[1]][s[2]] = 0 THEN <<>> ELSE <<dedits[dobj[s[1]][s[2]]], dsrc[dobj[s[1]][s[2]]]>>],
          {p \in Cells \X Cells : dobj[p[1][1]][p[1][2]] # 0 /\ dobj[p[1][1]][p[1][2]] = dobj[p[2][1]][p[2][2]]}>>

F3 == {"geom", "meta", "param"}
F2 == {"geom", "meta"}
F1 == {"geom"}
Objs2 == {"a", "b"}
Objs3 == {"a", "b", "c"}
None0 == {}
ShMeta == {"meta"}
DrParam == {"param"}
=============================================================================
