------------------------------- MODULE Repair -------------------------------
(***************************************************************************)
(* Post-conditions of the operators that restructure a triangle mesh       *)
(* without meaning to change its shape (property C18), stated as relations *)
(* between a recorded pre-mesh and the recorded post-mesh, and a batch     *)
(* validator of recorded calls of                                          *)
(*   Trimesh.subdivide / remesh.subdivide            (op "subdivide")      *)
(*   Trimesh.subdivide_to_size                       (op "tosize")         *)
(*   Trimesh.subdivide_loop                          (op "loop")           *)
(*   Trimesh.fix_normals / repair.fix_winding / repair.fix_inversion       *)
(*                                                   (op "fix")            *)
(*   Trimesh.fill_holes                              (op "fill")           *)
(*                                                                         *)
(* A mesh is  V : a sequence of integer points  and  F : a sequence of     *)
(* faces, each a triple of 0-based indices into V (hence the +1).  All     *)
(* arithmetic is exact.  The harness sends the pre-vertices v0 as          *)
(* integers and the post-vertices v1 as integers over the common           *)
(* power-of-two denominator "den" (v1 / den are the floats the             *)
(* implementation returned; "off" names a field that was not on such a     *)
(* lattice); the pre-mesh is brought to the same scale, V0 = den * v0.     *)
(*                                                                         *)
(*  Subdivide(sel): the oriented triangles of the result, compared as a    *)
(*    bag of triangles keyed by their directed-edge sets over POSITIONS,   *)
(*    are exactly: every unselected face once, and for every selected      *)
(*    face (a, b, c) the four children (a,ab,ca) (ab,b,bc) (ca,bc,c)       *)
(*    (ab,bc,ca) on the edge midpoints.  From this follow, and are named   *)
(*    separately as the property names them: every original vertex         *)
(*    position is still a vertex; 6 * signed volume unchanged; every       *)
(*    child has exactly 1/4 of its parent's vector area (so the area is    *)
(*    unchanged); and, when all faces are selected, watertightness and     *)
(*    the Euler number V - E + F of the INDEXED result are unchanged (one  *)
(*    shared midpoint vertex per edge).  For a proper subset the           *)
(*    documentation promises only that the neighbours are not modified     *)
(*    (T-junctions): nothing is said about the topology of the result.     *)
(*  SubdivideToSize(b, n): if it returns, no edge of the result is longer  *)
(*    than b (squared lengths compared as integers), original vertices     *)
(*    and 6 * volume are kept and - with return_index - the pieces         *)
(*    attributed to an original face lie in that face, are wound like it   *)
(*    and their vector areas add up to its vector area.  It may refuse     *)
(*    (ValueError "max_iter exceeded") only if n halvings do not suffice.  *)
(*  Loop: a smoothing scheme that moves vertices; only watertightness and  *)
(*    the Euler number are compared.                                       *)
(*  FixNormals: vertices unchanged, the bag of UNORIENTED triangles        *)
(*    (index sets) unchanged, and for a watertight pre-mesh: every shared  *)
(*    edge traversed in opposite directions, and 6 * volume > 0 for every  *)
(*    face-connected body (when the call works body by body).              *)
(*  FillHoles: starting from a manifold mesh with one or two faces         *)
(*    removed: the surviving faces are kept as they are, every edge of     *)
(*    the hole is closed, no edge is used more than twice and no boundary  *)
(*    appears that the original did not have, the added faces use only     *)
(*    vertices of the hole boundary, the result is consistently wound, no  *)
(*    vertex moved, and 6 * volume equals that of the original when the    *)
(*    removed patch was planar; the return value is the watertightness.    *)
(*                                                                         *)
(* Histories and scalings.  A fill record may carry a HISTORY before the     *)
(* call (reads that fill the cache, then invert()): the spec then judges    *)
(* the final mesh against the INVERTED pre-mesh (f0, fb are recorded        *)
(* inverted, sgn = -1, pre_ok says the mesh held exactly f0 before the      *)
(* call).  Subdivide inputs may have coincident but distinct vertices (two  *)
(* boxes face to face, a triangle soup): "every original vertex is kept" is *)
(* then a statement about multiplicities.  A fix record may have been run   *)
(* on a mesh one body of which was scaled by an exact power of two          *)
(* (2^-10, 2^-12: a body whose volume is below any merge tolerance); the    *)
(* harness multiplies that body's coordinates back, so the integers are the *)
(* unscaled lattice surface: every FixNormals post-condition is invariant   *)
(* under a positive scaling of one body about the origin, and the reported  *)
(* volume is then not compared (rep.novol).                                 *)
(*                                                                         *)
(* Audit extensions.  A fill record may have ANY number of faces removed as   *)
(* long as what is left is a manifold with boundary: the hole edges then     *)
(* fall into disjoint simple cycles, and only those of length 3 or 4 are     *)
(* "missing triangles or quads" that must be closed; longer holes may be     *)
(* left as they are.  op "fillfix" is the composite fill_holes() then        *)
(* fix_normals() on a solid of which faces were removed AND survivors        *)
(* re-wound: the holes must be closed and the whole a consistently wound     *)
(* positive solid again.  Subdivide records may carry the index dict of      *)
(* remesh.subdivide(return_index=True) (ridx: rows <<original face, its four *)
(* new face ids>>) and may start from the real result of a first round       *)
(* (pre_ok says that result was a proper mesh).  fix records may carry a     *)
(* history (reads, invert(), a first fix_normals()) before the judged call.  *)
(* rep.tri: mesh.triangles of the result over den (an observation point).    *)
(* Deviation tags name input-only predicates of findings (known or not).     *)
(*                                                                         *)
(* "rep" holds what the result object itself reports (is_watertight,       *)
(* is_winding_consistent, euler_number, 6 den^3 volume, 1000 * face        *)
(* normals): the observation points the property names.  They are          *)
(* compared with the same quantities computed here from the recorded       *)
(* result arrays.                                                          *)
(***************************************************************************)
\* NB clause names stay below 50 characters: TLC wraps PrintT output at 80 columns
EXTENDS Integers, Sequences, FiniteSets, TLC, Json

Cases == ndJsonDeserialize("cases.ndjson")
VARIABLE i

Range(s) == {s[k] : k \in 1..Len(s)}
Min2(a, b) == IF a <= b THEN a ELSE b
Max2(a, b) == IF a <= b THEN b ELSE a

\* ------------------------------------------------------------------ vectors
Sub(p, q) == <<p[1] - q[1], p[2] - q[2], p[3] - q[3]>>
Scale(k, p) == <<k * p[1], k * p[2], k * p[3]>>
Dot(u, v) == u[1] * v[1] + u[2] * v[2] + u[3] * v[3]
Cross(u, v) == <<u[2] * v[3] - u[3] * v[2], u[3] * v[1] - u[1] * v[3], u[1] * v[2] - u[2] * v[1]>>
Det3(a, b, c) == Dot(a, Cross(b, c))
Zero3 == <<0, 0, 0>>
Add(p, q) == <<p[1] + q[1], p[2] + q[2], p[3] + q[3]>>

Scaled(V, k) == [j \in 1..Len(V) |-> Scale(k, V[j])]
Pt(V, j) == V[j + 1]
Tri(V, f) == <<Pt(V, f[1]), Pt(V, f[2]), Pt(V, f[3])>>
FaceCross(t) == Cross(Sub(t[2], t[1]), Sub(t[3], t[1]))          \* 2 * vector area
InRange(F, n) == \A k \in 1..Len(F) : Len(F[k]) = 3 /\ \A j \in 1..3 : F[k][j] \in 0..(n - 1)

\* ----------------------------------------------------------------- topology
\* (definitions as in Topology.tla, on the index level)
Sorted(e) == <<Min2(e[1], e[2]), Max2(e[1], e[2])>>
Rev(e) == <<e[2], e[1]>>
DirEdges(F) == [k \in 1..(3 * Len(F)) |->
                   LET f == F[(k - 1) \div 3 + 1]  j == (k - 1) % 3 IN <<f[j + 1], f[((j + 1) % 3) + 1]>>]
UndOf(D) == [k \in 1..Len(D) |-> Sorted(D[k])]
Occ(S, e) == {k \in 1..Len(S) : S[k] = e}
Count(S, e) == Cardinality(Occ(S, e))
Watertight(F) == LET S == UndOf(DirEdges(F)) IN \A e \in Range(S) : Count(S, e) = 2
WindingConsistent(F) ==
    LET D == DirEdges(F)  S == UndOf(D) IN
    \A e \in Range(S) : LET o == Occ(S, e) IN Cardinality(o) = 2 => \A a, b \in o : a # b => D[a] = Rev(D[b])
Referenced(F) == UNION {Range(F[k]) : k \in 1..Len(F)}
Euler(F) == Cardinality(Referenced(F)) - Cardinality(Range(UndOf(DirEdges(F)))) + Len(F)
EdgesAtMostTwice(F) == LET S == UndOf(DirEdges(F)) IN \A e \in Range(S) : Count(S, e) <= 2

\* face-connected bodies: sets of (1-based) face ids linked through shared edges
FaceEdgeSet(F, k) == {Sorted(<<F[k][1], F[k][2]>>), Sorted(<<F[k][2], F[k][3]>>), Sorted(<<F[k][3], F[k][1]>>)}
\* Nbr[k]: the faces of Among that share an edge with face k
NbrMap(F, Among) ==
    LET ef == [e \in UNION {FaceEdgeSet(F, k) : k \in Among} |-> {k \in Among : e \in FaceEdgeSet(F, k)}]
    IN [k \in Among |-> UNION {ef[e] : e \in FaceEdgeSet(F, k)} \ {k}]
RECURSIVE Reach(_, _, _)
Reach(A, Frontier, Nbr) ==
    IF Frontier = {} THEN A
    ELSE LET N == UNION {Nbr[k] : k \in Frontier} \ A IN Reach(A \cup N, N, Nbr)
RECURSIVE Comps(_, _)
Comps(Rest, Nbr) ==
    IF Rest = {} THEN {}
    ELSE LET k == CHOOSE x \in Rest : TRUE  R == Reach({k}, {k}, Nbr) IN {R} \cup Comps(Rest \ R, Nbr)
Groups(F, Among) == Comps(Among, NbrMap(F, Among))
Bodies(F) == Groups(F, 1..Len(F))
\* manifold at every vertex: the faces around a vertex form one fan (linked through edges at that vertex)
LinkConnected(F, v) ==
    LET inc == {k \in 1..Len(F) : v \in Range(F[k])}
        nbr == [k \in inc |-> {g \in inc \ {k} : \E e \in FaceEdgeSet(F, k) \cap FaceEdgeSet(F, g) : v \in {e[1], e[2]}}]
        k0 == CHOOSE k \in inc : TRUE
    IN Reach({k0}, {k0}, nbr) = inc
VertexManifold(F) == \A v \in Referenced(F) : LinkConnected(F, v)

\* ------------------------------------------------------------------- volume
\* six times the signed volume: sum over faces of det(a - R, b - R, c - R).  It does not depend on
\* the reference point R for a closed surface; two reference points are compared so that a face
\* whose plane passes through one of them still counts.
\* (summed by halving the index range: the recursion depth stays logarithmic for thousands of faces)
RECURSIVE SumDet(_, _, _, _, _, _)
SumDet(V, F, B, R, lo, hi) ==
    IF lo > hi THEN 0
    ELSE IF lo = hi THEN
        (IF lo \in B THEN LET t == Tri(V, F[lo]) IN Det3(Sub(t[1], R), Sub(t[2], R), Sub(t[3], R)) ELSE 0)
    ELSE LET mid == (lo + hi) \div 2 IN SumDet(V, F, B, R, lo, mid) + SumDet(V, F, B, R, mid + 1, hi)
Vol6On(V, F, B, R) == SumDet(V, F, B, R, 1, Len(F))
Vol6(V, F, R) == Vol6On(V, F, 1..Len(F), R)
Ref2 == <<1, -2, 3>>
VolPair(V, F) == <<Vol6(V, F, Zero3), Vol6(V, F, Ref2)>>

\* --------------------------------------------------------------------- bags
BagOf(s) == [x \in Range(s) |-> Cardinality({k \in 1..Len(s) : s[k] = x})]
\* a triangle up to cyclic rotation, keeping orientation: its set of directed edges
TriKey(t) == {<<t[1], t[2]>>, <<t[2], t[3]>>, <<t[3], t[1]>>}
KeysOf(ts) == [k \in 1..Len(ts) |-> TriKey(ts[k])]
PosTris(V, F) == [k \in 1..Len(F) |-> Tri(V, F[k])]
PosBag(V, F) == BagOf(KeysOf(PosTris(V, F)))                    \* oriented triangles by position
IndexBag(F) == BagOf(KeysOf(F))                                 \* oriented triangles by vertex index
UnorientedBag(F) == BagOf([k \in 1..Len(F) |-> Range(F[k])])    \* index sets
BagGet(B, x) == IF x \in DOMAIN B THEN B[x] ELSE 0
KeyVerts(x) == {e[1] : e \in x}

\* ------------------------------------------------ the 1 -> 4 midpoint split
Mid(p, q) == <<(p[1] + q[1]) \div 2, (p[2] + q[2]) \div 2, (p[3] + q[3]) \div 2>>
Children(t) == LET a == t[1]  b == t[2]  c == t[3]
                   ab == Mid(a, b)  bc == Mid(b, c)  ca == Mid(c, a)
               IN <<<<a, ab, ca>>, <<ab, b, bc>>, <<ca, bc, c>>, <<ab, bc, ca>>>>
RECURSIVE SplitSeq(_, _, _, _)
SplitSeq(V, F, sel, k) ==
    IF k = 0 THEN <<>>
    ELSE SplitSeq(V, F, sel, k - 1) \o (IF (k - 1) \in sel THEN Children(Tri(V, F[k])) ELSE <<Tri(V, F[k])>>)
ExpectedSplit(V, F, sel) == SplitSeq(V, F, sel, Len(F))          \* triangles by position
\* four times the doubled vector area each result face must have: a child has 1/4 of its parent's
RECURSIVE QuarterSeq(_, _, _, _)
QuarterSeq(V, F, sel, k) ==
    IF k = 0 THEN <<>>
    ELSE LET n == FaceCross(Tri(V, F[k])) IN
         QuarterSeq(V, F, sel, k - 1) \o (IF (k - 1) \in sel THEN <<n, n, n, n>> ELSE <<Scale(4, n)>>)

\* ============================================================ the validator
\* what the result object reports about itself against the recorded result arrays
RepClause(c, V1, F1) ==
    LET r == c.rep IN
    IF ~r.has THEN "ok"
    ELSE IF r.wt # Watertight(F1) THEN "reported_is_watertight_not_that_of_result"
    ELSE IF r.wc # WindingConsistent(F1) THEN "reported_winding_flag_not_that_of_result"
    ELSE IF r.eul # Euler(F1) THEN "reported_euler_number_not_that_of_result"
    ELSE IF ~r.novol /\ Watertight(F1) /\ (~r.vol6ok \/ r.vol6 # Vol6(V1, F1, Zero3))
         THEN "reported_volume_not_that_of_result"
    ELSE IF Len(r.nrm) # 0 /\ (Len(r.nrm) # Len(F1) \/
                \E k \in 1..Len(F1) : Dot(r.nrm[k], FaceCross(Tri(V1, F1[k]))) <= 0)
         THEN "reported_face_normal_against_the_winding"
    ELSE IF Len(r.tri) # 0 /\ (Len(r.tri) # Len(F1) \/ \E k \in 1..Len(F1) : r.tri[k] # Tri(V1, F1[k]))
         THEN "reported_triangles_not_those_of_result"
    ELSE "ok"

\* ------------------------------------------------------------------ subdivide
\* number of vertices at position p (inputs may hold coincident but distinct vertices)
PosCount(V, p) == Cardinality({k \in 1..Len(V) : V[k] = p})
SubdivideClause(c) ==
    LET V0 == Scaled(c.v0, c.den)  F0 == c.f0  V1 == c.v1  F1 == c.f1
        sel == Range(c.sel)
        all == sel = 0..(Len(F0) - 1)
    IN
    IF ~c.pre_ok THEN "first_round_result_not_a_proper_mesh"
    ELSE IF c.off # "" THEN "result_offlattice_" \o c.off
    ELSE IF ~InRange(F1, Len(V1)) THEN "result_face_index_out_of_range"
    ELSE IF \E p \in Range(V0) : PosCount(V1, p) < PosCount(V0, p) THEN "subdivide_lost_an_original_vertex"
    ELSE IF VolPair(V1, F1) # VolPair(V0, F0) THEN "subdivide_changed_the_volume"
    ELSE IF BagOf([k \in 1..Len(F1) |-> Scale(4, FaceCross(Tri(V1, F1[k])))])
              # BagOf(QuarterSeq(V0, F0, sel, Len(F0))) THEN "subdivide_child_not_a_quarter_of_parent_area"
    ELSE IF all /\ Watertight(F1) # Watertight(F0) THEN "subdivide_all_changed_watertightness"
    ELSE IF all /\ Euler(F1) # Euler(F0) THEN "subdivide_all_changed_the_euler_number"
    ELSE IF PosBag(V1, F1) # BagOf(KeysOf(ExpectedSplit(V0, F0, sel))) THEN "subdivide_not_the_midpoint_split_of_selected"
    \* return_index: one row <<original face, four new face ids>> per selected face, naming its children
    ELSE IF c.ri /\ ({r[1] : r \in Range(c.ridx)} # sel \/ Len(c.ridx) # Cardinality(sel)
                     \/ \E r \in Range(c.ridx) : Len(r) # 5 \/ \E j \in 2..5 : r[j] \notin 0..(Len(F1) - 1))
         THEN "subdivide_index_shape"
    ELSE IF c.ri /\ \E r \in Range(c.ridx) :
              BagOf(KeysOf([j \in 1..4 |-> Tri(V1, F1[r[j + 1] + 1])])) # BagOf(KeysOf(Children(Tri(V0, F0[r[1] + 1]))))
         THEN "subdivide_index_not_the_children_of_its_face"
    ELSE RepClause(c, V1, F1)

\* --------------------------------------------------------- subdivide_to_size
SqLen(p, q) == LET d == Sub(q, p) IN Dot(d, d)
MaxSq(t) == Max2(SqLen(t[1], t[2]), Max2(SqLen(t[2], t[3]), SqLen(t[3], t[1])))
\* number of halvings until x / 4^k <= y
RECURSIVE Halvings(_, _)
Halvings(x, y) == IF x <= y THEN 0 ELSE 1 + Halvings(x, 4 * y)
\* every child of a midpoint split has its parent's edges halved, so a face needs exactly this many rounds
NeededFace(t, nn, dd) == Halvings(MaxSq(t) * dd * dd, nn * nn)
Needed(V, F, nn, dd) == LET per == {NeededFace(Tri(V, F[k]), nn, dd) : k \in 1..Len(F)}
                        IN CHOOSE m \in per : \A x \in per : x <= m
RECURSIVE SumCross(_, _, _, _, _, _)
SumCross(V, F, idx, f, lo, hi) ==
    IF lo > hi THEN Zero3
    ELSE IF lo = hi THEN (IF idx[lo] = f THEN FaceCross(Tri(V, F[lo])) ELSE Zero3)
    ELSE LET mid == (lo + hi) \div 2 IN Add(SumCross(V, F, idx, f, lo, mid), SumCross(V, F, idx, f, mid + 1, hi))
\* p in the closed triangle t (normal n = FaceCross(t)): in its plane and on the inner side of every edge
InFace(p, t, n) ==
    /\ Dot(Sub(p, t[1]), n) = 0
    /\ Dot(Cross(Sub(t[2], t[1]), Sub(p, t[1])), n) >= 0
    /\ Dot(Cross(Sub(t[3], t[2]), Sub(p, t[2])), n) >= 0
    /\ Dot(Cross(Sub(t[1], t[3]), Sub(p, t[3])), n) >= 0

ToSizeClause(c) ==
    LET V0 == Scaled(c.v0, c.den)  F0 == c.f0  V1 == c.v1  F1 == c.f1
        nn == c.me_n  dd == c.me_d  den == c.den
    IN
    IF c.refused THEN
        (IF Needed(c.v0, F0, nn, dd) > c.max_iter THEN "ok" ELSE "to_size_refused_though_max_iter_suffices")
    ELSE IF c.off # "" THEN "result_offlattice_" \o c.off
    ELSE IF ~InRange(F1, Len(V1)) THEN "result_face_index_out_of_range"
    ELSE IF \E k \in 1..Len(F1) : MaxSq(Tri(V1, F1[k])) * dd * dd > nn * nn * den * den
         THEN "to_size_left_an_edge_longer_than_the_bound"
    ELSE IF ~(Range(V0) \subseteq Range(V1)) THEN "to_size_lost_an_original_vertex"
    ELSE IF VolPair(V1, F1) # VolPair(V0, F0) THEN "to_size_changed_the_volume"
    ELSE IF ~c.ri THEN "ok"
    ELSE IF Len(c.idx) # Len(F1) \/ \E k \in 1..Len(F1) : c.idx[k] \notin 0..(Len(F0) - 1)
         THEN "to_size_index_shape"
    ELSE IF \E k \in 1..Len(F1) :
              LET t == Tri(V0, F0[c.idx[k] + 1])  n == FaceCross(t)  s == Tri(V1, F1[k]) IN
              ~(InFace(s[1], t, n) /\ InFace(s[2], t, n) /\ InFace(s[3], t, n))
         THEN "to_size_piece_outside_its_original_face"
    ELSE IF \E k \in 1..Len(F1) :
              Dot(FaceCross(Tri(V1, F1[k])), FaceCross(Tri(V0, F0[c.idx[k] + 1]))) <= 0
         THEN "to_size_piece_wound_against_its_original"
    ELSE IF \E f \in 1..Len(F0) : SumCross(V1, F1, c.idx, f - 1, 1, Len(F1)) # FaceCross(Tri(V0, F0[f]))
         THEN "to_size_pieces_do_not_add_up_to_original_face"
    ELSE "ok"

\* ------------------------------------------------------------ subdivide_loop
LoopClause(c) ==
    IF c.off # "" THEN "result_offlattice_" \o c.off               \* here: a coordinate that is not finite
    ELSE IF ~InRange(c.f1, c.nv1) THEN "result_face_index_out_of_range"
    ELSE IF Watertight(c.f1) # Watertight(c.f0) THEN "loop_changed_watertightness"
    ELSE IF Euler(c.f1) # Euler(c.f0) THEN "loop_changed_the_euler_number"
    ELSE "ok"

\* --------------------------------------------------------------- fix_normals
WindingApis == {"fix_normals_auto", "fix_normals_multibody", "fix_normals_single", "fix_winding"}
InversionApis == {"fix_inversion_multibody", "fix_inversion_single"}
PerBodyApis == {"fix_normals_auto", "fix_normals_multibody", "fix_inversion_multibody"}
WholeMeshApis == {"fix_normals_single", "fix_inversion_single"}      \* "rather than just one": judged on one body only

FixClause(c) ==
    LET V == c.v0  F0 == c.f0  F1 == c.f1
        closed == Watertight(F0)
        \* fix_inversion alone is handed a consistently wound surface (whole bodies inverted)
        applicable == closed /\ (c.api \in InversionApis => WindingConsistent(F0))
        wantWound == applicable
        wantPositive == applicable /\ (c.api \in PerBodyApis \/ (c.api \in WholeMeshApis /\ Cardinality(Bodies(F0)) = 1))
    IN
    IF c.off # "" THEN "result_offlattice_" \o c.off
    ELSE IF ~c.pre_ok THEN "history_before_fix_is_not_the_recorded_mesh"
    ELSE IF c.den # 1 \/ c.v1 # V THEN "fix_moved_a_vertex"
    ELSE IF ~InRange(F1, Len(V)) THEN "result_face_index_out_of_range"
    ELSE IF UnorientedBag(F1) # UnorientedBag(F0) THEN "fix_changed_the_triangle_set"
    ELSE IF wantWound /\ ~WindingConsistent(F1) THEN "fix_left_a_shared_edge_wound_the_same_way"
    ELSE IF wantPositive /\ \E B \in Bodies(F1) : Vol6On(V, F1, B, Zero3) <= 0 THEN "fix_left_a_body_without_positive_volume"
    ELSE RepClause(c, V, F1)

\* ---------------------------------------------------------------- fill_holes
\* c.fb: the faces before removal, c.removed: 0-based ids (into fb) of the removed faces, c.f0 the rest
Coplanar(V, F, G) ==
    LET g == CHOOSE k \in G : TRUE  t == Tri(V, F[g])  n == FaceCross(t) IN
    \A k \in G : \A j \in 1..3 : Dot(Sub(Pt(V, F[k][j]), t[1]), n) = 0
\* the edges of the hole(s): on the border of what is left, shared by two faces before the removal
HoleEdges(FB, F0) == LET S0 == UndOf(DirEdges(F0))  SB == UndOf(DirEdges(FB))
                     IN {e \in Range(S0) : Count(S0, e) = 1 /\ Count(SB, e) = 2}
\* connected components of the hole boundary, as sets of vertices
HoleComps(hole) == LET hv == UNION {{e[1], e[2]} : e \in hole}
                       nb == [x \in hv |-> {y \in hv : Sorted(<<x, y>>) \in hole}]
                   IN Comps(hv, nb)
HoleNbrs(hole, x) == {y \in UNION {{e[1], e[2]} : e \in hole} : Sorted(<<x, y>>) \in hole}
\* a missing triangle or quad: a simple cycle of three or four hole edges
Fillable(C, hole) == Cardinality(C) \in {3, 4} /\ \A x \in C : Cardinality(HoleNbrs(hole, x)) = 2
FillableEdges(hole) == LET good == {C \in HoleComps(hole) : Fillable(C, hole)}
                       IN {e \in hole : \E C \in good : e[1] \in C}
FillClause(c) ==
    LET V == c.v0  FB == c.fb  F0 == c.f0  V1 == c.v1  F1 == c.f1
        S0 == UndOf(DirEdges(F0))  SB == UndOf(DirEdges(FB))
        holeAll == HoleEdges(FB, F0)
        hole == FillableEdges(holeAll)              \* must be closed
        hverts == UNION {{e[1], e[2]} : e \in holeAll}
        B0 == IndexBag(F0)
        removed == {r + 1 : r \in Range(c.removed)}
        planar == hole = holeAll /\ \A G \in Groups(FB, removed) : Coplanar(V, FB, G)
    IN
    IF c.off # "" THEN "result_offlattice_" \o c.off
    ELSE IF ~c.pre_ok THEN "history_before_fill_is_not_the_inverted_mesh"
    ELSE IF c.den # 1 \/ Len(V1) < Len(V) \/ SubSeq(V1, 1, Len(V)) # V THEN "fill_moved_a_vertex"
    ELSE IF ~InRange(F1, Len(V1)) THEN "result_face_index_out_of_range"
    ELSE LET S1 == UndOf(DirEdges(F1))  B1 == IndexBag(F1) IN
    IF \E x \in DOMAIN B0 : BagGet(B1, x) < B0[x] THEN "fill_lost_or_rewound_a_surviving_face"
    ELSE IF \E e \in hole : Count(S1, e) < 2 THEN "fill_left_a_missing_triangle_or_quad_open"
    ELSE IF \E e \in Range(S1) : Count(S1, e) > 2 THEN "fill_put_a_third_face_on_an_edge"
    ELSE IF \E e \in Range(S1) : Count(S1, e) = 1 /\ Count(SB, e) # 1 /\ e \notin holeAll \ hole
         THEN "fill_opened_a_new_boundary"
    ELSE IF \E x \in DOMAIN B1 : B1[x] > BagGet(B0, x) /\ ~(KeyVerts(x) \subseteq hverts)
         THEN "fill_added_a_face_off_the_hole_boundary"
    ELSE IF ~WindingConsistent(F1) THEN "fill_new_face_wound_like_its_neighbour"
    ELSE IF planar /\ VolPair(V1, F1) # VolPair(V, FB) THEN "fill_of_planar_hole_changed_the_volume"
    ELSE IF c.ret # Watertight(F1) THEN "fill_return_value_not_watertightness_after"
    ELSE RepClause(c, V1, F1)

\* fill_holes() then fix_normals() on a solid with faces removed and survivors re-wound
FillFixClause(c) ==
    LET V == c.v0  FB == c.fb  F0 == c.f0  V1 == c.v1  F1 == c.f1
        holeAll == HoleEdges(FB, F0)
        hole == FillableEdges(holeAll)
        U0 == UnorientedBag(F0)
        removed == {r + 1 : r \in Range(c.removed)}
        planar == hole = holeAll /\ \A G \in Groups(FB, removed) : Coplanar(V, FB, G)
    IN
    IF c.off # "" THEN "result_offlattice_" \o c.off
    ELSE IF c.den # 1 \/ Len(V1) < Len(V) \/ SubSeq(V1, 1, Len(V)) # V THEN "fill_moved_a_vertex"
    ELSE IF ~InRange(F1, Len(V1)) THEN "result_face_index_out_of_range"
    ELSE LET S1 == UndOf(DirEdges(F1))  U1 == UnorientedBag(F1) IN
    IF \E x \in DOMAIN U0 : BagGet(U1, x) < U0[x] THEN "fillfix_lost_a_surviving_triangle"
    ELSE IF \E e \in hole : Count(S1, e) < 2 THEN "fill_left_a_missing_triangle_or_quad_open"
    ELSE IF \E e \in Range(S1) : Count(S1, e) > 2 THEN "fill_put_a_third_face_on_an_edge"
    ELSE IF hole = holeAll /\ Watertight(FB) /\ ~Watertight(F1) THEN "fillfix_result_not_watertight"
    ELSE IF hole = holeAll /\ Watertight(FB) /\ ~WindingConsistent(F1) THEN "fix_left_a_shared_edge_wound_the_same_way"
    \* (a non-planar quad closed along its other diagonal may enclose no volume at all: only planar holes)
    ELSE IF planar /\ Watertight(FB) /\ \E B \in Bodies(F1) : Vol6On(V1, F1, B, Zero3) <= 0
         THEN "fix_left_a_body_without_positive_volume"
    ELSE IF planar /\ Watertight(FB) /\ VolPair(V1, F1) # VolPair(V, FB) THEN "fill_of_planar_hole_changed_the_volume"
    ELSE RepClause(c, V1, F1)

Clause(c) ==
    CASE c.op = "subdivide" -> SubdivideClause(c)
      [] c.op = "tosize" -> ToSizeClause(c)
      [] c.op = "loop" -> LoopClause(c)
      [] c.op = "fix" -> FixClause(c)
      [] c.op = "fill" -> FillClause(c)
      [] c.op = "fillfix" -> FillFixClause(c)
      [] OTHER -> "unknown_operation"

\* ---------------------------------------------------------- named deviations (as built)
\* Decided on the INPUT only.  "QDE" (known finding FillHolesQuadDiagonalIsExistingEdge): two edge-adjacent
\* faces were removed and one diagonal of the resulting 4-cycle - the two corners the removed faces did
\* not share, or the two they shared - is already joined by an edge of the surviving mesh.  fill_holes
\* splits the 4-cycle along an arbitrary diagonal (and refuses a mesh of fewer than three faces).
QuadDiagonalIsExistingEdge(c) ==
    /\ c.op \in {"fill", "fillfix"}
    /\ LET S0 == Range(UndOf(DirEdges(c.f0)))  hole == HoleEdges(c.fb, c.f0) IN
       \E a, b \in Range(c.removed) : a < b /\
          LET A == Range(c.fb[a + 1])  B == Range(c.fb[b + 1]) IN
          /\ Cardinality(A \cap B) = 2 /\ Cardinality(A \cup B) = 4
          \* the two faces alone make the hole: their four outer edges are hole edges
          /\ (FaceEdgeSet(c.fb, a + 1) \cup FaceEdgeSet(c.fb, b + 1)) \ (FaceEdgeSet(c.fb, a + 1) \cap FaceEdgeSet(c.fb, b + 1))
                \subseteq hole
          /\ \E d \in {A \cap B, (A \cup B) \ (A \cap B)} : \E x, y \in d : x < y /\ <<x, y>> \in S0
\* "QSA" (finding FillHolesQuadStraightAngle): a quad hole three consecutive corners of which are collinear; split
\* along the diagonal that joins the ends of the straight angle one new face has no area, is dropped, and the
\* hole stays open.
QuadHoleWithStraightAngle(c) ==
    /\ c.op \in {"fill", "fillfix"}
    /\ LET hole == HoleEdges(c.fb, c.f0) IN
       \E C \in HoleComps(hole) : Cardinality(C) = 4 /\ Fillable(C, hole) /\
          \E x \in C : \E y, z \in HoleNbrs(hole, x) : y < z /\
              Cross(Sub(Pt(c.v0, y), Pt(c.v0, x)), Sub(Pt(c.v0, z), Pt(c.v0, x))) = Zero3
\* input-only predicates of the findings of the coverage audit (containers / dtypes / options)
SubdivideFaceIndexTuple(c) == c.op = "subdivide" /\ c.form = "tuple"
SubdivideUnsigned64Faces(c) == c.op = "subdivide" /\ c.fdt = "uint64"
SubdivideFlatVertexAttribute(c) == c.op = "subdivide" /\ c.cfg = "vattr1d"
LoopUnreferencedVertex(c) == c.op = "loop" /\ Referenced(c.f0) # 0..(Len(c.v0) - 1)
Deviation(c) == IF QuadDiagonalIsExistingEdge(c) THEN "QDE"
                ELSE IF QuadHoleWithStraightAngle(c) THEN "QSA"
                ELSE IF SubdivideFaceIndexTuple(c) THEN "SFT"
                ELSE IF SubdivideUnsigned64Faces(c) THEN "SU64"
                ELSE IF SubdivideFlatVertexAttribute(c) THEN "SVA1"
                ELSE IF LoopUnreferencedVertex(c) THEN "LUV"
                ELSE ""

Init == i = 1
Next == i < Len(Cases) /\ i' = i + 1
Report == LET c == Cases[i]  cl == IF c.exc # "" THEN "raised_" \o c.exc ELSE Clause(c)
          IN IF cl = "ok" THEN TRUE
             ELSE IF Deviation(c) # "" THEN PrintT(<<"REJECT", c.id, cl, Deviation(c)>>)
             ELSE PrintT(<<"REJECT", c.id, cl>>)

\* ------------------------------------------------ the inputs satisfy the hypothesis
\* (a failure here is a defect of the harness or of this module, never a finding about trimesh)
ProperMesh(V, F) ==
    /\ Len(F) >= 1 /\ InRange(F, Len(V))
    /\ \A k \in 1..Len(F) : FaceCross(Tri(V, F[k])) # Zero3                \* no degenerate face
    /\ EdgesAtMostTwice(F) /\ VertexManifold(F)                           \* manifold edges and vertices
\* sgn = 1: every body encloses positive volume; sgn = -1: the inverted surface of such a solid
SolidBodiesS(V, F, sgn) ==
    Watertight(F) /\ WindingConsistent(F) /\ \A B \in Bodies(F) : sgn * Vol6On(V, F, B, Zero3) > 0
SolidBodies(V, F) == SolidBodiesS(V, F, 1)
InputSane ==
    LET c == Cases[i]  V == c.v0  F == c.f0 IN
    /\ ProperMesh(V, F)
    /\ c.op # "subdivide" => Cardinality(Range(V)) = Len(V)                \* distinct positions
    /\ c.op \in {"subdivide", "tosize"} =>
         \A k \in 1..Len(V) : \A j \in 1..3 : V[k][j] % 2 = 0              \* midpoints are lattice points
    /\ c.op = "subdivide" => Range(c.sel) \subseteq 0..(Len(F) - 1) /\ Cardinality(Range(c.sel)) = Len(c.sel)
    /\ c.op = "tosize" => c.me_n > 0 /\ c.me_d \in {1, 2, 4} /\ c.max_iter >= 0
    /\ c.op = "fix" =>
         /\ ProperMesh(V, c.fb)
         /\ UnorientedBag(F) = UnorientedBag(c.fb)                         \* the same triangles, re-wound
         /\ (c.closed => SolidBodies(V, c.fb))
         /\ (c.closed = Watertight(F))
    /\ c.op = "fill" =>
         /\ ProperMesh(V, c.fb) /\ WindingConsistent(c.fb)
         /\ c.sgn \in {1, -1} /\ (c.closed => SolidBodiesS(V, c.fb, c.sgn))
         /\ Cardinality(Range(c.removed)) = Len(c.removed) /\ Len(c.removed) >= 1
         /\ Range(c.removed) \subseteq 0..(Len(c.fb) - 1)
         \* a hole, not a notch in the border: every edge of a removed face was shared by two faces
         /\ LET SB == UndOf(DirEdges(c.fb)) IN
            \A r \in Range(c.removed) : \A e \in FaceEdgeSet(c.fb, r + 1) : Count(SB, e) = 2
         /\ F = SelectSeq([k \in 1..Len(c.fb) |-> IF (k - 1) \in Range(c.removed) THEN <<>> ELSE c.fb[k]],
                          LAMBDA f : f # <<>>)
    /\ c.op = "fillfix" =>
         /\ ProperMesh(V, c.fb) /\ WindingConsistent(c.fb) /\ (c.closed => SolidBodies(V, c.fb))
         /\ Cardinality(Range(c.removed)) = Len(c.removed) /\ Len(c.removed) >= 1
         /\ Range(c.removed) \subseteq 0..(Len(c.fb) - 1)
         /\ LET SB == UndOf(DirEdges(c.fb)) IN
            \A r \in Range(c.removed) : \A e \in FaceEdgeSet(c.fb, r + 1) : Count(SB, e) = 2
         \* the survivors, in order, each possibly re-wound
         /\ [k \in 1..Len(F) |-> Range(F[k])]
              = SelectSeq([k \in 1..Len(c.fb) |-> IF (k - 1) \in Range(c.removed) THEN {} ELSE Range(c.fb[k])],
                          LAMBDA f : f # {})

\* ------------------------------------------------------- laws of the reference itself
\* the children tile their parent: signed volumes add up, every child has a quarter of the vector
\* area, and the three corner children keep the parent's corners
RefLaws ==
    LET c == Cases[i] IN
    c.op = "subdivide" =>
      LET V == c.v0 IN
      \A k \in 1..Len(c.f0) :
          LET t == Tri(V, c.f0[k])  ch == Children(t) IN
          /\ Det3(ch[1][1], ch[1][2], ch[1][3]) + Det3(ch[2][1], ch[2][2], ch[2][3])
               + Det3(ch[3][1], ch[3][2], ch[3][3]) + Det3(ch[4][1], ch[4][2], ch[4][3]) = Det3(t[1], t[2], t[3])
          /\ \A j \in 1..4 : Scale(4, FaceCross(ch[j])) = FaceCross(t)
          /\ ch[1][1] = t[1] /\ ch[2][2] = t[2] /\ ch[3][3] = t[3]
          /\ \A j \in 1..3 : Add(ch[4][j], ch[4][j]) \in {Add(t[1], t[2]), Add(t[2], t[3]), Add(t[3], t[1])}
=============================================================================
