---------------------------- MODULE LoaderTrace ----------------------------
(***************************************************************************)
(* Validator of recorded load traces for property C20: every recorded load *)
(* must be a terminal state of the life-cycle machine of Loader.tla that   *)
(* satisfies HandleClosedAtEnd and OutcomeOrdinary, within the time bound. *)
(***************************************************************************)
EXTENDS Integers, Sequences, FiniteSets, TLC, Json
Traces == ndJsonDeserialize("cases.ndjson")
VARIABLE i
TInit == i = 1
TNext == i < Len(Traces) /\ i' = i + 1
\* a recorded load: [id, entry, bypath, opened, closed, outcome, slow, fd_leak,
\*                   nbytes, mem_allow_kib, mem_attempts, aux_open, ms]
\* it must be a terminal state of the life-cycle machine that satisfies the safety properties.
\*
\* Memory in proportion to the input: the load ran with the address space it could still obtain
\* limited to mem_allow_kib; mem_attempts counts the MemoryErrors raised anywhere during the load
\* (also those a loader caught and turned into something else), i.e. the requests that did not fit.
\* The allowance the property is read with is MemBaseKiB + MemPerByteKiB * nbytes: half a GiB
\* plus a KiB per byte of input, orders of magnitude above what a parser of kilobyte inputs needs.
MemBaseKiB == 524288
MemPerByteKiB == 1
MemBoundKiB(n) == MemBaseKiB + MemPerByteKiB * n
\* Time in proportion to the input: 10 s + 1 ms per byte of CPU time (ms = measured CPU milliseconds)
TimeBoundMs(n) == 10000 + n
TClause(t) ==
    IF t.mem_allow_kib < MemBoundKiB(t.nbytes) THEN "machinery_allowance_below_bound"
    ELSE IF t.outcome = "memory" \/ t.mem_attempts > 0 THEN "memory_out_of_proportion_to_input"
    ELSE IF t.outcome \notin {"return", "exception"} THEN "outcome_not_return_or_ordinary_exception"
    ELSE IF t.slow \/ t.ms > TimeBoundMs(t.nbytes) THEN "time_bound_exceeded"
    ELSE IF t.opened # t.bypath THEN "opened_iff_given_a_path"
    ELSE IF t.opened /\ ~t.closed THEN "handle_left_open"
    ELSE IF t.fd_leak THEN "file_descriptor_leak"
    ELSE IF t.aux_open > 0 THEN "auxiliary_file_left_open"
    ELSE "ok"
TReport == LET t == Traces[i]  cl == TClause(t) IN
           IF cl # "ok" THEN PrintT(<<"REJECT", t.id, cl>>) ELSE TRUE

=============================================================================
