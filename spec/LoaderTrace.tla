---------------------------- MODULE LoaderTrace ----------------------------
(***************************************************************************)
(* Validator of recorded load traces for property C20: every recorded load *)
(* must be a terminal state of the life-cycle machine of Loader.tla that   *)
(* satisfies HandleClosedAtEnd and OutcomeOrdinary, within the time bound. *)
(***************************************************************************)
EXTENDS Integers, Sequences, FiniteSets, TLC, Json
Traces == ndJsonDeserialize("cases.ndjson")
VARIABLE i
TInit == i = 1
TNext == i < Len(Traces) /\ i' = i + 1
\* a recorded load: [id, entry, bypath, opened, closed, outcome, slow, fd_leak]
\* it must be a terminal state of the life-cycle machine that satisfies the safety properties
TClause(t) ==
    IF t.outcome \notin {"return", "exception"} THEN "outcome_not_return_or_ordinary_exception"
    ELSE IF t.slow THEN "time_bound_exceeded"
    ELSE IF t.opened # t.bypath THEN "opened_iff_given_a_path"
    ELSE IF t.opened /\ ~t.closed THEN "handle_left_open"
    ELSE IF t.fd_leak THEN "file_descriptor_leak"
    ELSE "ok"
TReport == LET t == Traces[i]  cl == TClause(t) IN
           IF cl # "ok" THEN PrintT(<<"REJECT", t.id, cl>>) ELSE TRUE

=============================================================================
