--------------------------- MODULE TrackedArray ---------------------------
(***************************************************************************)
(* trimesh.caching.TrackedArray and the containers hashed on top of it     *)
(* (DataStore -> Trimesh / Path / PointCloud, ColorVisuals, Scene).        *)
(* Property C02: the hash of a tracked array always identifies its current *)
(* bytes, by whatever route numpy offers to change them.                   *)
(*                                                                         *)
(* Abstract state: one buffer per root array with a byte-version counter;  *)
(* array objects (roots, tracked views, base-class views) alias a buffer;  *)
(* every TrackedArray object carries the dirty flag and the memoised hash  *)
(* the code keeps.  A hash is abstracted to the byte version it was        *)
(* computed from.                                                          *)
(*                                                                         *)
(* Property level : Hash(a) = bytes[buf[a]]               (HashFresh)      *)
(* As built       : the memo is returned unless the *object's own* flag is *)
(* set, and the flag is only set by the Python-level overrides and by      *)
(* __array_finalize__.  The three ways this diverges from the property     *)
(* level are named deviations, stamped on the behaviour:                   *)
(*   ViewHeldAcrossHash   write through another TrackedArray alias         *)
(*   CLevelWrite          write that bypasses the overrides (out=, copyto) *)
(*   BaseClassViewWrite   write through a plain ndarray view               *)
(***************************************************************************)
EXTENDS Integers, Sequences, FiniteSets, TLC, Json, SequencesExt

CONSTANTS Roots,     \* root arrays, e.g. {"r", "s"}  (vertices, faces of one container)
          TViews,    \* names available for tracked views of the first root
          BViews,    \* names available for base-class (plain ndarray) views of the first root
          QViews,    \* names available for tracked aliases made through a plain-ndarray intermediary
                     \* (caching.tracked_array(a), np.asarray(a).view(TrackedArray), w.view(TrackedArray)):
                     \* __array_finalize__ sees a plain ndarray, so the source is NOT marked
          Root1,     \* the root that views are taken of
          MaxDepth,
          AsBuilt    \* TRUE: implementation-shaped flags; FALSE: intended design (any write dirties every alias)

VARIABLES live,     \* set of live array objects
          bytes,    \* [Roots -> Nat] byte version of each buffer
          dirty,    \* [Objs -> BOOLEAN]   _dirty_hash
          memo,     \* [Objs -> Int]       _hashed as the byte version it was computed from, -1 = none
          cause,    \* [Objs -> SUBSET STRING] deviations that made the memo stale while the flag is clear
          last,     \* last hash read: <<>> or [a, got, exp, dev]
          hist

vars == <<live, bytes, dirty, memo, cause, last, hist>>
Objs == Roots \cup TViews \cup BViews \cup QViews
Tracked == Roots \cup TViews \cup QViews
BufOf(a) == IF a \in Roots THEN a ELSE Root1
View == <<live, dirty, [a \in Objs |-> IF memo[a] = -1 THEN 0 ELSE IF memo[a] = bytes[BufOf(a)] THEN 1 ELSE 2],
          cause, last>>

Log(rec) == hist' = Append(hist, rec)

Init == /\ live = Roots
        /\ bytes = [r \in Roots |-> 0]
        \* every root has been hashed once (containers hash their members while being set up)
        /\ dirty = [a \in Objs |-> a \notin Roots]
        /\ memo = [a \in Objs |-> IF a \in Roots THEN 0 ELSE -1]
        /\ cause = [a \in Objs |-> {}]
        /\ last = <<>> /\ hist = <<>>

\* aliases of the same buffer whose memo is trusted (flag clear, memo present)
Trusting(b) == {x \in live \cap Tracked : BufOf(x) = b /\ ~dirty[x] /\ memo[x] # -1}

\* hash read: TrackedArray.__hash__
Hash(a) ==
    /\ a \in live \cap Tracked
    /\ LET b == BufOf(a)
           fresh == bytes[b]
           got == IF AsBuilt /\ ~dirty[a] /\ memo[a] # -1 THEN memo[a] ELSE fresh
       IN /\ memo' = [memo EXCEPT ![a] = got]
          /\ dirty' = [dirty EXCEPT ![a] = FALSE]
          /\ cause' = [cause EXCEPT ![a] = IF got = fresh THEN {} ELSE cause[a]]
          /\ last' = [a |-> a, got |-> got, exp |-> fresh, dev |-> IF got = fresh THEN {} ELSE cause[a]]
          /\ Log([op |-> "hash", a |-> a, stale |-> got # fresh,
                  dev |-> IF got = fresh THEN <<>> ELSE SetToSeq(cause[a])])
    /\ UNCHANGED <<live, bytes>>


\* a[...] / a.T / a.reshape / a.view(TrackedArray)...: new TrackedArray sharing the buffer
MakeTView(a, v) ==
    /\ a \in live \cap Tracked /\ BufOf(a) = Root1 /\ v \in TViews \ live
    /\ live' = live \cup {v}
    /\ dirty' = [x \in Objs |-> IF x = v THEN TRUE
                                ELSE IF x = a THEN TRUE ELSE dirty[x]]      \* finalize marks the source too
    /\ memo' = [memo EXCEPT ![v] = -1]
    /\ cause' = [cause EXCEPT ![v] = {}]
    /\ UNCHANGED <<bytes>> /\ last' = <<>>
    /\ Log([op |-> "tview", a |-> a, v |-> v])

\* a.view(np.ndarray) / np.asarray(a): plain ndarray sharing the buffer; no flag is touched
MakeBView(a, w) ==
    /\ a \in live \cap Tracked /\ BufOf(a) = Root1 /\ w \in BViews \ live
    /\ live' = live \cup {w}
    /\ UNCHANGED <<bytes, dirty, memo, cause>> /\ last' = <<>>
    /\ Log([op |-> "bview", a |-> a, v |-> w])

\* tracked_array(a) / np.asarray(a).view(TrackedArray) / w.view(TrackedArray): a new TrackedArray on the
\* same buffer whose creation touches no flag of any existing object (the source may be a base-class view)
MakeQView(a, q) ==
    /\ a \in live /\ BufOf(a) = Root1 /\ q \in QViews \ live
    /\ live' = live \cup {q}
    /\ dirty' = [dirty EXCEPT ![q] = TRUE]
    /\ memo' = [memo EXCEPT ![q] = -1]
    /\ cause' = [cause EXCEPT ![q] = {}]
    /\ UNCHANGED <<bytes>> /\ last' = <<>>
    /\ Log([op |-> "qview", a |-> a, v |-> q])

\* effect of any write to buffer b through object a by a route of kind k
Bump(a, k) ==
    LET b == BufOf(a)
        flagged == IF AsBuilt THEN (IF k = "over" THEN {a} ELSE {})
                   ELSE {x \in live \cap Tracked : BufOf(x) = b}
        why == IF k = "over" THEN "ViewHeldAcrossHash"
               ELSE IF k = "clevel" THEN "CLevelWrite" ELSE "BaseClassViewWrite"
    IN /\ bytes' = [bytes EXCEPT ![b] = @ + 1]
       /\ dirty' = [x \in Objs |-> IF x \in flagged THEN TRUE ELSE dirty[x]]
       /\ cause' = [x \in Objs |-> IF x \in Trusting(b) \ flagged THEN cause[x] \cup {why} ELSE cause[x]]
       /\ UNCHANGED <<live, memo>> /\ last' = <<>>

\* a[i] = x, a += x, a.sort(), a.fill() ... : routes TrackedArray overrides
WriteOver(a)   == a \in live \cap Tracked /\ Bump(a, "over")   /\ Log([op |-> "write_over", a |-> a])
\* np.add(a, 1, out=a), np.copyto(a, x), a.flat[0] = x ... : routes that bypass the overrides
WriteCLevel(a) == a \in live \cap Tracked /\ Bump(a, "clevel") /\ Log([op |-> "write_clevel", a |-> a])
\* w[...] = x where w is a base-class view
WriteBase(w)   == w \in live \cap BViews  /\ Bump(w, "base")   /\ Log([op |-> "write_base", a |-> w])

\* byte-preserving operation deriving a new TrackedArray from a (a.copy(), a[[0,1]], ...):
\* __array_finalize__ marks the source dirty; bytes do not change
ReadDerive(a) ==
    /\ a \in live \cap Tracked
    /\ dirty' = [dirty EXCEPT ![a] = TRUE]
    /\ UNCHANGED <<live, bytes, memo, cause>> /\ last' = <<>>
    /\ Log([op |-> "read_d", a |-> a])
\* byte-preserving read that touches no flag (a.sum(), a.tolist(), a.tobytes(), ...)
ReadPlain(a) ==
    /\ a \in live \cap Tracked
    /\ UNCHANGED <<live, bytes, dirty, memo, cause>> /\ last' = <<>>
    /\ Log([op |-> "read_c", a |-> a])

Next == /\ Len(hist) < MaxDepth
        /\ \/ \E a \in Objs : Hash(a) \/ WriteOver(a) \/ WriteCLevel(a) \/ WriteBase(a) \/ ReadDerive(a) \/ ReadPlain(a)
           \/ \E a \in Objs, v \in TViews : MakeTView(a, v)
           \/ \E a \in Objs, w \in BViews : MakeBView(a, w)
           \/ \E a \in Objs, q \in QViews : MakeQView(a, q)

Spec == Init /\ [][Next]_vars

\* ------------------------------------------------------------- properties
HashFresh == last # <<>> => last.got = last.exp
\* as-built: a stale answer is always explained by a named deviation
StaleIsExplained == (last # <<>> /\ last.got # last.exp) => last.dev # {}
\* the hash of a container (DataStore) is a function of its members' hashes, so it is fresh iff they are
ContainerFresh == \A r \in Roots : (~dirty[r] /\ memo[r] # -1 /\ cause[r] = {}) => memo[r] = bytes[r]
\* operations that leave the bytes unchanged leave the hash unchanged
MemoNeverAhead == \A a \in live \cap Tracked : memo[a] <= bytes[BufOf(a)]

\* what a hash read of each root would return in the final state (used for the container hashes)
FinalRoots == [r \in Roots |-> [stale |-> AsBuilt /\ ~dirty[r] /\ memo[r] # -1 /\ memo[r] # bytes[r],
                               dev |-> SetToSeq(cause[r])]]
Emit == PrintT(ToJson([h |-> hist, fin |-> FinalRoots]))
EmitLeaf == (Len(hist) = MaxDepth) => Emit
EmitAll  == Emit

Roots2 == {"r", "s"}
Roots1 == {"r"}
TV1 == {"v"}
TV2 == {"v", "u"}
BV1 == {"w"}
BV0 == {}
QV0 == {}
QV1 == {"q"}
=============================================================================
