---------------------------- MODULE ExchangeCaps ----------------------------
(***************************************************************************)
(* Capability tables of the exporter/loader pairs (property C08).          *)
(*                                                                         *)
(* One entry per (format, option variant).  A variant name is the file     *)
(* type followed by the non-default export / load option it exercises;     *)
(* the harness (checks/c08.py, VARIANTS) maps the name to the actual       *)
(* keyword arguments and refuses to run when the two name sets differ.     *)
(*                                                                         *)
(* "Colours ... where the format carries them" is read conservatively: a   *)
(* colour kind is demanded of a variant only if its exporter writes it by  *)
(* design.  prec is the precision class the encoding stores:               *)
(*   f64    IEEE double, bit exact          f32    IEEE single             *)
(*   repr   shortest decimal that parses back to the same double           *)
(*   tN     fixed point text with N decimals                               *)
(*   f32t8  IEEE single written as fixed point text with 8 decimals        *)
(*   approx6  text of unspecified width, 1e-6 relative                     *)
(***************************************************************************)
EXTENDS Integers, Sequences, FiniteSets, TLC, SequencesExt

T == TRUE
F == FALSE

\* ------------------------------------------------------------------ meshes
\* vid    the vertex array and the face index array come back as they were
\* unref  vertices that no face references are kept (only meaningful with vid)
\* fc/vc  per-face / per-vertex colours are written;  alpha: with their alpha channel
MC(v, u, f, c, a, p) == [vid |-> v, unref |-> u, fc |-> f, vc |-> c, alpha |-> a, prec |-> p]

MeshCapTable ==
       ("stl"              :> MC(F, F, F, F, F, "f32"))
    @@ ("stl_ascii"        :> MC(F, F, F, F, F, "repr"))
    @@ ("dae"              :> MC(F, F, F, F, F, "approx6"))
    @@ ("off"              :> MC(T, T, F, F, F, "t10"))
    @@ ("off_d12"          :> MC(T, T, F, F, F, "t12"))
    @@ ("3mf"              :> MC(T, T, F, F, F, "repr"))
    @@ ("3mf_b2"           :> MC(T, T, F, F, F, "repr"))
    @@ ("3mf_stored"       :> MC(T, T, F, F, F, "repr"))
    @@ ("obj"              :> MC(T, F, F, T, F, "t8"))
    @@ ("obj_vn"           :> MC(T, F, F, T, F, "t8"))
    @@ ("obj_nocolor"      :> MC(T, F, F, F, F, "t8"))
    @@ ("obj_d12"          :> MC(T, F, F, T, F, "t12"))
    @@ ("obj_nohdr"        :> MC(T, F, F, T, F, "t8"))
    @@ ("obj_lmo"          :> MC(T, F, F, T, F, "t8"))
    @@ ("glb"              :> MC(T, T, F, T, T, "f32"))
    @@ ("glb_vn"           :> MC(T, T, F, T, T, "f32"))
    @@ ("glb_vn_raw"       :> MC(T, T, F, T, T, "f32"))
    @@ ("glb_lmp"          :> MC(T, T, F, T, T, "f32"))
    @@ ("gltf"             :> MC(T, T, F, T, T, "f32"))
    @@ ("gltf_merge"       :> MC(T, T, F, T, T, "f32"))
    @@ ("gltf_embed"       :> MC(T, T, F, T, T, "f32"))
    @@ ("gltf_merge_embed" :> MC(T, T, F, T, T, "f32"))
    @@ ("ply"              :> MC(T, T, T, T, T, "f32"))
    @@ ("ply_vn"           :> MC(T, T, T, T, T, "f32"))
    @@ ("ply_noattr"       :> MC(T, T, T, T, T, "f32"))
    @@ ("ply_ascii"        :> MC(T, T, F, T, T, "f32t8"))
    @@ ("ply_ascii_vn"     :> MC(T, T, F, T, T, "f32t8"))
    @@ ("dict"             :> MC(T, T, T, T, T, "f64"))
    @@ ("dict64"           :> MC(T, T, T, T, T, "f64"))

MeshFormats == DOMAIN MeshCapTable
Cap(f) == MeshCapTable[f]
\* the eleven pairs of the first version of the check (default options, ascii PLY)
BaseMeshFormats == {"stl", "stl_ascii", "dae", "off", "3mf", "obj", "glb", "ply_ascii", "ply", "dict", "dict64"}

\* abstract state of a mesh travelling through formats: which aspects of the ORIGINAL it still
\* carries, and whether it (still) has vertices that no face references
Top(hasUnref) == [vid |-> TRUE, fc |-> TRUE, vc |-> TRUE, alpha |-> TRUE, unref |-> hasUnref]
RoundTrip(s, f) ==
    LET c  == Cap(f)
        fc == s.fc /\ c.fc
        vc == s.vc /\ c.vc
    IN [vid   |-> s.vid /\ c.vid /\ (c.unref \/ ~s.unref),
        fc    |-> fc,
        vc    |-> vc,
        alpha |-> s.alpha /\ c.alpha /\ (fc \/ vc),
        unref |-> s.unref /\ c.unref /\ c.vid]

\* ------------------------------------------------------------ point clouds
CC(r, a, p) == [rgb |-> r, alpha |-> a, prec |-> p]
CloudCapTable ==
       ("xyz"              :> CC(T, T, "t8"))
    @@ ("xyz_nocolor"      :> CC(F, F, "t8"))
    @@ ("xyz_comma"        :> CC(T, T, "t8"))       \* delimiter "," given to exporter and loader
    @@ ("xyz_comma_auto"   :> CC(T, T, "t8"))       \* loader detects the comma ("whitespace or commas")
    @@ ("xyz_tab"          :> CC(T, T, "t8"))
    @@ ("ply"              :> CC(T, T, "f32"))
    @@ ("ply_ascii"        :> CC(T, T, "f32t8"))
    @@ ("glb"              :> CC(T, T, "f32"))
    @@ ("gltf_merge_embed" :> CC(T, T, "f32"))
    @@ ("obj"              :> CC(T, F, "t8"))
CloudFormats == DOMAIN CloudCapTable

\* ------------------------------------------------------------------- paths
\* dims: which path dimensions the exporter accepts; ents: entity objects come back as entities of
\* the same type (otherwise only the curve they draw)
PC(d, e, p) == [dims |-> d, ents |-> e, prec |-> p]
PathCapTable ==
       ("dxf"       :> PC({2}, F, "t9"))          \* %.12g of coordinates below 1000
    @@ ("svg"       :> PC({2}, F, "t13"))
    @@ ("svg_d3"    :> PC({2}, F, "t3"))
    @@ ("dict"      :> PC({2, 3}, T, "f64"))
    @@ ("ply"       :> PC({3}, F, "f32"))
    @@ ("ply_ascii" :> PC({3}, F, "f32t8"))
    @@ ("glb"       :> PC({2, 3}, F, "f32"))      \* through path.scene()
PathFormats == DOMAIN PathCapTable
\* entity classes of the harness: which ones must come back segment for segment (at prec);
\* a closed circle may be re-sampled from another start point and coarse text moves the control
\* points of a curve before it is sampled, so those are only demanded as curves (Hausdorff distance)
CurveClasses == {"arc_ccw", "arc_cw", "arc_big", "circle", "bezier", "bspline", "mixed_entities"}
PathSegsDemanded(f, cls) == cls # "circle" /\ ~(PathCapTable[f].prec = "t3" /\ cls \in CurveClasses)

\* ------------------------------------------------------------------ voxels
VoxelCapTable == ("binvox" :> [cells |-> T, placed |-> T]) @@ ("binvox_xyz" :> [cells |-> T, placed |-> T])
VoxelFormats == DOMAIN VoxelCapTable

\* ------------------------------------------------------------------ scenes
\* place   instance placement survives (every instance, where it was)
\* kinds   geometry kinds the format can hold next to each other
\* orient  the vertex order inside each triangle is kept for mirrored instances (flattening
\*         exporters re-wind mirrored instances so that normals keep pointing outwards)
\* tolerates: kinds the exporter accepts next to the ones it carries: they do not come back, but the
\*         geometry that IS carried must come back undisturbed (a point cloud or a face-less mesh written
\*         between two meshes must not shift the face indices of the second)
SC(k, t, o, p) == [place |-> T, kinds |-> k, tolerates |-> t, orient |-> o, prec |-> p]
SceneCapTable ==
       ("glb"              :> SC({"mesh", "cloud", "path"}, {}, T, "f32"))
    @@ ("gltf"             :> SC({"mesh", "cloud", "path"}, {}, T, "f32"))
    @@ ("gltf_merge_embed" :> SC({"mesh", "cloud", "path"}, {}, T, "f32"))
    @@ ("3mf"              :> SC({"mesh"}, {}, T, "repr"))
    @@ ("obj"              :> SC({"mesh"}, {"cloud"}, F, "t8"))
    @@ ("ply"              :> SC({"mesh"}, {"cloud"}, F, "f32"))
    @@ ("stl"              :> SC({"mesh"}, {"cloud"}, F, "f32"))
    @@ ("dict"             :> SC({"mesh"}, {}, T, "f64"))
    @@ ("dict64"           :> SC({"mesh"}, {}, T, "f64"))
SceneFormats == DOMAIN SceneCapTable

Tables == [mesh  |-> MeshCapTable,
           base  |-> SetToSeq(BaseMeshFormats),
           cloud |-> CloudCapTable,
           path  |-> [f \in PathFormats |-> [dims |-> SetToSeq(PathCapTable[f].dims), ents |-> PathCapTable[f].ents, prec |-> PathCapTable[f].prec]],
           voxel |-> VoxelCapTable,
           scene |-> [f \in SceneFormats |-> [kinds |-> SetToSeq(SceneCapTable[f].kinds), tolerates |-> SetToSeq(SceneCapTable[f].tolerates), orient |-> SceneCapTable[f].orient, prec |-> SceneCapTable[f].prec]]]
=============================================================================
