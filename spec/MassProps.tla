----------------------------- MODULE MassProps -----------------------------
(***************************************************************************)
(* Reference semantics of the mass properties of a closed oriented         *)
(* triangle surface (property C03) and a batch validator of recorded       *)
(* calls of trimesh.triangles.mass_properties / Trimesh.volume,            *)
(* center_mass, moment_inertia, mass, density, area, area_faces,           *)
(* moment_inertia_frame.                                                   *)
(*                                                                         *)
(* A surface S is a sequence of faces, a face a triple of points, a point  *)
(* a triple of integers.  The enclosed solid is the signed union of the    *)
(* tetrahedra (origin, a, b, c), one per face <<a, b, c>>.  The integral   *)
(* of a monomial over one such tetrahedron is the textbook closed form in  *)
(* the symmetric-sum formulation over its four vertices p_0 = origin,      *)
(* p_1 = a, p_2 = b, p_3 = c, with det = a . (b x c):                      *)
(*     int 1     = det / 6                                                 *)
(*     int x_p   = det / 24  * SUM_i p_i[p]                                *)
(*     int x_p x_q = det / 120 * ( SUM_i p_i[p] p_i[q]                     *)
(*                                 + (SUM_i p_i[p]) (SUM_i p_i[q]) )       *)
(* (deliberately not the per-face flux polynomials f1,f2,f3,g0,g1,g2 of    *)
(* Eberly's scheme that the implementation uses).  Every integral is kept  *)
(* multiplied by 120, so that TLC works in integers.                       *)
(*                                                                         *)
(* Notation for a surface S with G = I120(S):                              *)
(*    D = 6 * volume = SUM det          N = 24 * first moments             *)
(*    J = 120 * inertia tensor about the origin (unit density)             *)
(*    centre of mass      c   = N / (4 D)                                  *)
(*    inertia about c     I_c = (4 D J - 5 M(N)) / (480 D)                 *)
(* where M(a) = |a|^2 E - a a^T is the parallel-axis matrix.               *)
(*                                                                         *)
(* The harness sends integers only: every float the implementation         *)
(* returned is multiplied by the denominator named next to the field,      *)
(* rounded, and the rounding residual is tested (<= 1e-9 relative); a      *)
(* value that is not on the lattice is reported in field "off".            *)
(*                                                                         *)
(* Unit of length and origin.  A record may say that the implementation    *)
(* was handed the surface (S + org) * sc (org an integer vector, sc a      *)
(* positive rational; fields "org", "sc").  The harness then reads every   *)
(* result back in the lattice unit and about the lattice origin (lengths   *)
(* / sc - org, areas / sc^2, volumes / sc^3, second moments / sc^5; frame  *)
(* origins and centre overrides are handed over as (t + org) * sc), so     *)
(* the record is judged exactly like the one for S itself.  The two laws   *)
(* this relies on (translation covariance, homogeneity of degree 3 / 4 /   *)
(* 5) are checked on the reference in RefLaws.                             *)
(*                                                                         *)
(* Frames.  A frame is (R / rd, t / td) with integer R, t: rotations with  *)
(* rational entries (rd = 3, 5 from integer quaternions) and origins on    *)
(* the half / quarter lattice.  FrameJ120Q evaluates the definition on     *)
(* the surface in q = rd * td times the frame coordinates, which is a      *)
(* lattice surface again; second moments are homogeneous of degree 5.      *)
(***************************************************************************)
EXTENDS Integers, Sequences, FiniteSets, TLC, Json

Cases == ndJsonDeserialize("cases.ndjson")
VARIABLE i

\* ------------------------------------------------------------ vectors, matrices
Sub(p, q) == <<p[1] - q[1], p[2] - q[2], p[3] - q[3]>>
Add(p, q) == <<p[1] + q[1], p[2] + q[2], p[3] + q[3]>>
Scale(k, p) == <<k * p[1], k * p[2], k * p[3]>>
Dot(u, v) == u[1] * v[1] + u[2] * v[2] + u[3] * v[3]
Cross(u, v) == <<u[2] * v[3] - u[3] * v[2], u[3] * v[1] - u[1] * v[3], u[1] * v[2] - u[2] * v[1]>>
Det3(a, b, c) == Dot(a, Cross(b, c))

Zero3 == <<0, 0, 0>>
ZeroM == <<Zero3, Zero3, Zero3>>
IdM == <<<<1, 0, 0>>, <<0, 1, 0>>, <<0, 0, 1>>>>
MAdd(A, B) == <<Add(A[1], B[1]), Add(A[2], B[2]), Add(A[3], B[3])>>
MScale(k, A) == <<Scale(k, A[1]), Scale(k, A[2]), Scale(k, A[3])>>
Col(A, j) == <<A[1][j], A[2][j], A[3][j]>>
Transpose(A) == <<Col(A, 1), Col(A, 2), Col(A, 3)>>
MMul(A, B) == LET r(k) == <<Dot(A[k], Col(B, 1)), Dot(A[k], Col(B, 2)), Dot(A[k], Col(B, 3))>>
              IN <<r(1), r(2), r(3)>>
MVec(A, v) == <<Dot(A[1], v), Dot(A[2], v), Dot(A[3], v)>>
DetM(A) == Det3(A[1], A[2], A[3])
IsRotation(R) == MMul(R, Transpose(R)) = IdM /\ DetM(R) = 1
\* R / rd is a rotation
IsRotationQ(R, rd) == rd >= 1 /\ MMul(R, Transpose(R)) = MScale(rd * rd, IdM) /\ DetM(R) = rd * rd * rd

\* parallel-axis matrix  M(a) = |a|^2 E - a a^T
PAx(a) == <<<<a[2] * a[2] + a[3] * a[3], -(a[1] * a[2]), -(a[1] * a[3])>>,
            <<-(a[1] * a[2]), a[1] * a[1] + a[3] * a[3], -(a[2] * a[3])>>,
            <<-(a[1] * a[3]), -(a[2] * a[3]), a[1] * a[1] + a[2] * a[2]>>>>

\* ------------------------------------------------------------ the ten integrals
\* order: 1, x, y, z, xx, yy, zz, xy, yz, zx   (all multiplied by 120)
Zero10 == <<0, 0, 0, 0, 0, 0, 0, 0, 0, 0>>
Add10(u, v) == <<u[1] + v[1], u[2] + v[2], u[3] + v[3], u[4] + v[4], u[5] + v[5],
                 u[6] + v[6], u[7] + v[7], u[8] + v[8], u[9] + v[9], u[10] + v[10]>>
Neg10(u) == <<-u[1], -u[2], -u[3], -u[4], -u[5], -u[6], -u[7], -u[8], -u[9], -u[10]>>

\* sums over the four vertices of the tetrahedron (origin, f[1], f[2], f[3]); the origin adds 0
S1(f, p) == f[1][p] + f[2][p] + f[3][p]
S2(f, p, q) == f[1][p] * f[1][q] + f[2][p] * f[2][q] + f[3][p] * f[3][q] + S1(f, p) * S1(f, q)

Tet120(f) ==
    LET d == Det3(f[1], f[2], f[3]) IN
    <<20 * d, 5 * d * S1(f, 1), 5 * d * S1(f, 2), 5 * d * S1(f, 3),
      d * S2(f, 1, 1), d * S2(f, 2, 2), d * S2(f, 3, 3),
      d * S2(f, 1, 2), d * S2(f, 2, 3), d * S2(f, 3, 1)>>

RECURSIVE SumFaces(_, _, _)
SumFaces(S, lo, hi) == IF hi < lo THEN Zero10 ELSE Add10(SumFaces(S, lo, hi - 1), Tet120(S[hi]))
I120(S) == SumFaces(S, 1, Len(S))

\* quantities derived from G = I120(S)
D6(G) == G[1] \div 20                                   \* 6 * volume (exact: G[1] = 20 * SUM det)
N24(G) == <<G[2] \div 5, G[3] \div 5, G[4] \div 5>>     \* 24 * first moments (exact)
J120(G) == <<<<G[6] + G[7], -G[8], -G[10]>>,            \* 120 * inertia about the origin
             <<-G[8], G[5] + G[7], -G[9]>>,
             <<-G[10], -G[9], G[5] + G[6]>>>>
\* 480 * D * (inertia about the centre of mass)  =  4 D J - 5 M(N)
Central480D(G) == MAdd(MScale(4 * D6(G), J120(G)), MScale(-5, PAx(N24(G))))

\* ------------------------------------------------------------ operations on surfaces
MapPoints(S, F(_)) == [k \in 1..Len(S) |-> <<F(S[k][1]), F(S[k][2]), F(S[k][3])>>]
Reverse(S) == [k \in 1..Len(S) |-> <<S[k][1], S[k][3], S[k][2]>>]
Translate(S, t) == MapPoints(S, LAMBDA p : Add(p, t))
\* coordinates in the frame with axes = columns of R and origin t :  p' = R^T (p - t)
ToFrame(S, R, t) == LET Rt == Transpose(R) IN MapPoints(S, LAMBDA p : MVec(Rt, Sub(p, t)))
\* 120 * (inertia tensor of the solid expressed in the frame (R, t)), by definition
FrameJ120(S, R, t) == J120(I120(ToFrame(S, R, t)))
\* frame (R / rd, t / td): the surface in (rd * td) x frame coordinates,  p'' = R^T (td p - t)
ToFrameQ(S, R, t, td) == LET Rt == Transpose(R) IN MapPoints(S, LAMBDA p : MVec(Rt, Sub(Scale(td, p), t)))
FrameJ120Q(S, R, t, td) == J120(I120(ToFrameQ(S, R, t, td)))      \* = (rd td)^5 * 120 * frame inertia
\* the solid moved by the rotation R (about the origin), and the solid in another unit of length
RotateBody(S, R) == MapPoints(S, LAMBDA p : MVec(R, p))
ScaleBody(S, k) == MapPoints(S, LAMBDA p : Scale(k, p))
Homog10(G, k) == <<k * k * k * G[1], k * k * k * k * G[2], k * k * k * k * G[3], k * k * k * k * G[4],
                   k * k * k * k * k * G[5], k * k * k * k * k * G[6], k * k * k * k * k * G[7],
                   k * k * k * k * k * G[8], k * k * k * k * k * G[9], k * k * k * k * k * G[10]>>

FaceCross(f) == Cross(Sub(f[2], f[1]), Sub(f[3], f[1]))
Cross2(f) == LET n == FaceCross(f) IN Dot(n, n)         \* (2 * area)^2
Squares == {r * r : r \in 0..400}
Root == [n \in Squares |-> CHOOSE r \in 0..400 : r * r = n]
RECURSIVE SumRoots(_, _)
SumRoots(S, k) == IF k = 0 THEN 0 ELSE SumRoots(S, k - 1) + Root[Cross2(S[k])]

\* closed and consistently wound: every directed edge is matched by its reverse, with multiplicity
DirEdges(S) == [k \in 1..(3 * Len(S)) |->
                   LET f == S[(k - 1) \div 3 + 1]  j == ((k - 1) % 3) + 1 IN <<f[j], f[(j % 3) + 1]>>]
Closed(S) == LET E == DirEdges(S) IN
             \A k \in 1..Len(E) :
                 Cardinality({j \in 1..Len(E) : E[j] = E[k]})
                     = Cardinality({j \in 1..Len(E) : E[j] = <<E[k][2], E[k][1]>>})
\* the four outward faces of the tetrahedron (a, b, c, d) with det(b-a, c-a, d-a) > 0
TetSurface(a, b, c, d) == <<<<a, c, b>>, <<a, b, d>>, <<a, d, c>>, <<b, c, d>>>>
IsTetSurface(S) == Len(S) = 4 /\ S = TetSurface(S[1][1], S[1][3], S[1][2], S[2][3])
\* a triangle and its reverse (the reverse written from any starting vertex)
Reversals(f) == {<<f[1], f[3], f[2]>>, <<f[3], f[2], f[1]>>, <<f[2], f[1], f[3]>>}
IsPillow(S) == Len(S) = 2 /\ S[2] \in Reversals(S[1])
\* kinds of input whose closedness is structural: "tet" = one tetrahedron, "pillow" = one pillow, each
\* optionally followed by a companion tetrahedron; every other kind is checked edge by edge
IsTetKind(S) == /\ Len(S) \in {4, 8} /\ IsTetSurface(SubSeq(S, 1, 4))
                /\ (Len(S) = 8 => IsTetSurface(SubSeq(S, 5, 8)))
IsPillowKind(S) == /\ Len(S) \in {2, 6} /\ IsPillow(SubSeq(S, 1, 2))
                   /\ (Len(S) = 6 => IsTetSurface(SubSeq(S, 3, 6)))

\* ------------------------------------------------------------ validation of one record
\* Clause names are kept short: TLC wraps a printed tuple longer than 80 characters over several
\* lines, which the runner would not recognise.  Their meaning:
\*   volume                    volume = integral of 1                       = D / 6
\*   density_reported          the density reported is the density given
\*   mass_density_x_volume     mass = density * volume
\*   center_mass_override      an overridden centre of mass is reported back unchanged
\*   center_mass               centre of mass = first moments / volume      = N / (4 D)
\*   inertia_at_center_mass    inertia tensor about the centre of mass      = density (4 D J - 5 M(N)) / (480 D)
\*   inertia_empty_solid       all ten integrals vanish => the tensor is zero
\*   face_areas                (2 area_k)^2 = |cross product of two edges|^2
\*   area_total                2 area = sum of the roots (only when every root is an integer)
\*   frame_inertia_integral    inertia in frame (R, t) = second-moment integrals in frame coordinates
\*   frame_inertia_reported_law  (under an override) = R^T (I + m M(t - c)) R of the reported I, m, c
\*   inertia_true_override  the override given IS the centre of mass: the tensor must be the central one
\*   rotated_body_inertia      inertia.transform_inertia(R, I): central tensor of the solid moved by R (= R I R^T)
\*   rotated_frame_at_center   inertia.transform_inertia(R, I, parallel_axis, mass) with a 3x3 R: central tensor
\*                             in the axes of frame R (= R^T I R)
\*   offlattice_<field>        the reported float is not within 1e-9 of any point of the lattice of exact values
\* record c: tri (the triangles handed to the implementation), density dn/dd,
\*   ovr / oc2 (centre override given, 2 * override), obs (one per API), see checks/c03.py
\* observation o: off, vol6 = 6 vol, mass6 = 6 dd mass, dens = dd density,
\*   cm  = 4 vol6 * centre            (2 * centre when overridden)
\*   I   = 480 vol6 dd * inertia      (120 dd * inertia when vol6 = 0; 240 dd * inertia when overridden)
\*   crs2[k] = (2 area_k)^2, area2 = 2 * area (hasarea: the API reports a total; area2ok: it is an integer),  frames[k] = [R, t, I = 240 dd * frame inertia]
AllSquares(S) == \A k \in 1..Len(S) : Cross2(S[k]) \in Squares

\* the override given is the true centre of mass:  oc2 / 2 = N / (4 D)
OvrTrue(c, G) == c.ovr /\ D6(G) # 0 /\ Scale(2 * D6(G), c.oc2) = N24(G)

\* frame fr = [R, rd, t, td, I]: rotation R / rd, origin t / td,
\*   I = 240 dd rd^2 td^2 * (reported frame inertia)   so that   I * q^3 = 2 dn FrameJ120Q,  q = rd td
FrameClause(c, o, G, fr) ==
    LET D == D6(G)  q == fr.rd * fr.td
        integral == IF MScale(q * q * q, fr.I) # MScale(2 * c.dn, FrameJ120Q(c.tri, fr.R, fr.t, fr.td))
                    THEN "frame_inertia_integral" ELSE "ok" IN
    IF c.ovr THEN
        \* law applied to the reported values: R^T (I + m M(t - c)) R   (lattice frames only)
        IF q = 1 /\ o.ilat /\ fr.I # MMul(Transpose(fr.R), MMul(MAdd(o.I, MScale(10 * o.mass6, PAx(Sub(Scale(2, fr.t), c.oc2)))), fr.R))
        THEN "frame_inertia_reported_law"
        ELSE IF OvrTrue(c, G) THEN integral ELSE "ok"
    ELSE IF D # 0 \/ G = Zero10 THEN integral
    ELSE "ok"

\* direct calls of inertia.transform_inertia on the reported central tensor; x = [R, A, P], A and P in the
\* unit of o.I (480 vol6 dd); only recorded without an override and with non-zero volume
XfClause(c, x) ==
    IF x.A # MScale(c.dn, Central480D(I120(RotateBody(c.tri, x.R)))) THEN "rotated_body_inertia"
    ELSE IF x.P # MScale(c.dn, Central480D(I120(ToFrame(c.tri, x.R, Zero3)))) THEN "rotated_frame_at_center"
    ELSE "ok"

ObsClause(c, o, G) ==
    LET S == c.tri  D == D6(G)  N == N24(G)
        badframes == {k \in 1..Len(o.frames) : FrameClause(c, o, G, o.frames[k]) # "ok"}
        badxf == {k \in 1..Len(o.xf) : XfClause(c, o.xf[k]) # "ok"} IN
    IF o.off # "" THEN "offlattice_" \o o.off
    ELSE IF o.vol6 # D THEN "volume"
    ELSE IF o.dens # c.dn THEN "density_reported"
    ELSE IF o.mass6 # c.dn * D THEN "mass_density_x_volume"
    ELSE IF c.ovr /\ o.cm # c.oc2 THEN "center_mass_override"
    ELSE IF OvrTrue(c, G) /\ (~o.ilat \/ MScale(2 * D, o.I) # MScale(c.dn, Central480D(G))) THEN "inertia_true_override"
    ELSE IF ~c.ovr /\ D # 0 /\ o.cm # N THEN "center_mass"
    ELSE IF ~c.ovr /\ D # 0 /\ o.I # MScale(c.dn, Central480D(G)) THEN "inertia_at_center_mass"
    ELSE IF ~c.ovr /\ G = Zero10 /\ o.I # ZeroM THEN "inertia_empty_solid"
    ELSE IF Len(o.crs2) # Len(S) \/ \E k \in 1..Len(S) : o.crs2[k] # Cross2(S[k]) THEN "face_areas"
    ELSE IF o.hasarea /\ AllSquares(S) /\ (~o.area2ok \/ o.area2 # SumRoots(S, Len(S))) THEN "area_total"
    ELSE IF badframes # {} THEN FrameClause(c, o, G, o.frames[CHOOSE k \in badframes : \A m \in badframes : k <= m])
    ELSE IF badxf # {} THEN XfClause(c, o.xf[CHOOSE k \in badxf : \A m \in badxf : k <= m])
    ELSE "ok"

Clause(c) ==
    LET G == I120(c.tri)
        bad == {k \in 1..Len(c.obs) : ObsClause(c, c.obs[k], G) # "ok"} IN
    IF bad = {} THEN "ok"
    ELSE LET k == CHOOSE k \in bad : \A m \in bad : k <= m IN c.obs[k].api \o ":" \o ObsClause(c, c.obs[k], G)

Init == i = 1
Next == i < Len(Cases) /\ i' = i + 1
Report == LET c == Cases[i]  cl == IF c.exc # "" THEN "raised_" \o c.exc ELSE Clause(c)
          IN IF cl # "ok" THEN PrintT(<<"REJECT", c.id, cl>>) ELSE TRUE

\* ------------------------------------------------------------ the inputs satisfy the hypothesis
InputSane ==
    LET c == Cases[i]  S == c.tri IN
    /\ Len(S) >= 1 /\ c.dd \in {1, 2, 4, 1024} /\ c.dn >= 0
    /\ c.sc[1] >= 1 /\ c.sc[2] >= 1 /\ Len(c.org) = 3
    /\ CASE c.kind = "tet" -> IsTetKind(S)
         [] c.kind = "pillow" -> IsPillowKind(S)
         [] c.kind = "ovrtrue" -> Closed(S) /\ OvrTrue(c, I120(S))     \* built so that the override is the true centre
         [] OTHER -> Closed(S)
    /\ \A k \in 1..Len(c.obs) :
          /\ \A m \in 1..Len(c.obs[k].frames) :
                LET fr == c.obs[k].frames[m] IN IsRotationQ(fr.R, fr.rd) /\ fr.td >= 1
          /\ \A m \in 1..Len(c.obs[k].xf) : IsRotation(c.obs[k].xf[m].R)

\* ------------------------------------------------------------ laws of the reference itself
\* evaluated on the recorded inputs flagged c.laws (all of them in the small families)
Shift10(G, t) ==   \* integrals of the surface translated by t, from those of the surface
    <<G[1], G[2] + t[1] * G[1], G[3] + t[2] * G[1], G[4] + t[3] * G[1],
      G[5] + 2 * t[1] * G[2] + t[1] * t[1] * G[1],
      G[6] + 2 * t[2] * G[3] + t[2] * t[2] * G[1],
      G[7] + 2 * t[3] * G[4] + t[3] * t[3] * G[1],
      G[8] + t[1] * G[3] + t[2] * G[2] + t[1] * t[2] * G[1],
      G[9] + t[2] * G[4] + t[3] * G[3] + t[2] * t[3] * G[1],
      G[10] + t[3] * G[2] + t[1] * G[4] + t[3] * t[1] * G[1]>>

\* the integrals over a tetrahedron (a, b, c, d) written directly on its own four vertices
TetDirect120(a, b, c, d) ==
    LET det == Det3(Sub(b, a), Sub(c, a), Sub(d, a))
        s1(p) == a[p] + b[p] + c[p] + d[p]
        s2(p, q) == a[p] * a[q] + b[p] * b[q] + c[p] * c[q] + d[p] * d[q] + s1(p) * s1(q) IN
    <<20 * det, 5 * det * s1(1), 5 * det * s1(2), 5 * det * s1(3),
      det * s2(1, 1), det * s2(2, 2), det * s2(3, 3), det * s2(1, 2), det * s2(2, 3), det * s2(3, 1)>>

\* the tetrahedron whose four faces start at position k of S (in the layout of TetSurface)
TetAt(S, k) == TetDirect120(S[k][1], S[k][3], S[k][2], S[k + 1][3])

RECURSIVE BodiesSum(_, _, _, _)
BodiesSum(S, nb, k, start) ==
    IF k > Len(nb) THEN Zero10
    ELSE Add10(SumFaces(S, start, start + nb[k] - 1), BodiesSum(S, nb, k + 1, start + nb[k]))
RECURSIVE SeqSum(_, _)
SeqSum(s, k) == IF k = 0 THEN 0 ELSE s[k] + SeqSum(s, k - 1)

RefLaws ==
    LET c == Cases[i]  S == c.tri  G == I120(S)  D == D6(G)  N == N24(G) IN
    c.laws =>
      /\ G[1] = 20 * D /\ G[2] = 5 * N[1] /\ G[3] = 5 * N[2] /\ G[4] = 5 * N[3]
      /\ I120(Reverse(S)) = Neg10(G)                                   \* Volume(Reverse(S)) = -Volume(S), and all moments
      /\ I120(Translate(S, c.lt)) = Shift10(G, c.lt)                   \* translation covariance
      /\ SeqSum(c.nb, Len(c.nb)) = Len(S) /\ BodiesSum(S, c.nb, 1, 1) = G   \* additivity over bodies
      \* signed tetrahedra from the origin = the tetrahedron's own closed form; a pillow encloses nothing
      /\ c.kind = "tet" => G = IF Len(S) = 4 THEN TetAt(S, 1) ELSE Add10(TetAt(S, 1), TetAt(S, 5))
      /\ c.kind = "pillow" => G = IF Len(S) = 2 THEN Zero10 ELSE TetAt(S, 3)
      \* homogeneity (change of the unit of length) and rotation of the body keep the volume
      /\ I120(ScaleBody(S, 2)) = Homog10(G, 2)
      /\ \A k \in 1..Len(c.obs) : \A m \in 1..Len(c.obs[k].xf) :
            LET R == c.obs[k].xf[m].R  GR == I120(RotateBody(S, R)) IN
            /\ GR[1] = G[1] /\ N24(GR) = MVec(R, N)
            /\ Central480D(GR) = MMul(R, MMul(Central480D(G), Transpose(R)))
            /\ Central480D(I120(ToFrame(S, R, Zero3))) = MMul(Transpose(R), MMul(Central480D(G), R))
      \* parallel-axis and rotation law against the definition of the frame inertia, frame (R / rd, t / td):
      \*   4 D J_frame = R^T (4 D J - 5 M(N) + 5 M(4 D t - N)) R, i.e. with q = rd td
      \*   4 D FrameJ120Q = q^3 R^T (td^2 (4 D J - 5 M(N)) + 5 M(4 D t - td N)) R
      /\ \A k \in 1..Len(c.obs) : \A m \in 1..Len(c.obs[k].frames) :
            LET fr == c.obs[k].frames[m]  q == fr.rd * fr.td IN
            MScale(4 * D, FrameJ120Q(S, fr.R, fr.t, fr.td))
              = MScale(q * q * q, MMul(Transpose(fr.R),
                    MMul(MAdd(MScale(fr.td * fr.td, Central480D(G)),
                              MScale(5, PAx(Sub(Scale(4 * D, fr.t), Scale(fr.td, N))))), fr.R)))
=============================================================================
