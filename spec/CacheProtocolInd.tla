-------------------------- MODULE CacheProtocolInd --------------------------
(***************************************************************************)
(* The verify-on-read / transport-after-verify discipline of caching.Cache *)
(* (the protocol part of MeshCache.tla) in Apalache's typed fragment, with *)
(* an inductive invariant.  Unlike the bounded TLC runs this establishes   *)
(* NoStaleRead for histories of ANY length and unbounded version numbers:  *)
(*      Init => IndInv          and      IndInv /\ Next => IndInv'          *)
(* are discharged by `apalache-mc check` (see checks/c01.py, thorough).    *)
(* Keys are the four dependency classes that matter for the discipline:    *)
(* kept-and-valid, kept-but-invalid does not exist in the intended design, *)
(* so every key is either dropped or validly transported by a mutator.     *)
(***************************************************************************)
EXTENDS Integers

VARIABLES
    \* @type: Int;
    ver,
    \* @type: Int;
    idcur,
    \* @type: Str -> Int;
    ent,
    \* @type: Int;
    lastv

Keys == {"k1", "k2", "k3", "k4"}
Kept == {"k1", "k2"}           \* keys a mutator transports validly
NoV == -1

Init == /\ ver = 0 /\ idcur = NoV /\ ent = [k \in Keys |-> NoV] /\ lastv = NoV

\* Cache.verify()
VEnt == IF idcur # ver THEN [k \in Keys |-> NoV] ELSE ent

Read(k) == /\ idcur' = ver
           /\ IF VEnt[k] # NoV
              THEN ent' = VEnt /\ lastv' = VEnt[k]
              ELSE ent' = [VEnt EXCEPT ![k] = ver] /\ lastv' = ver
           /\ UNCHANGED ver

\* any write to tracked data by the user
Edit == ver' = ver + 1 /\ lastv' = NoV /\ UNCHANGED <<idcur, ent>>

\* a library mutator: verify, change data, clear(exclude = Kept), id_set
Mutate == /\ ver' = ver + 1 /\ idcur' = ver + 1 /\ lastv' = NoV
          /\ ent' = [k \in Keys |-> IF k \in Kept /\ VEnt[k] # NoV THEN ver + 1 ELSE NoV]

\* copy(include_cache=True) continues on the copy: verified source entries, id set for the same data
CopyCache == /\ ent' = VEnt /\ idcur' = ver /\ UNCHANGED ver /\ lastv' = NoV

Next == (\E k \in Keys : Read(k)) \/ Edit \/ Mutate \/ CopyCache

NoStaleRead == lastv # NoV => lastv = ver
IndInv == /\ ver >= 0
          /\ (idcur = NoV \/ (idcur >= 0 /\ idcur <= ver))
          /\ \A k \in Keys : (ent[k] # NoV => ent[k] = idcur)
          /\ NoStaleRead
\* initial predicate for the inductive step: any state whatsoever that satisfies IndInv
IndInit == /\ ver \in Int /\ idcur \in Int /\ lastv \in Int /\ ent \in [Keys -> Int]
           /\ IndInv
=============================================================================
