--------------------------- MODULE PrimitiveObject ---------------------------
(***************************************************************************)
(* A primitive (Box, Sphere, Cylinder, Capsule, Extrusion): parameters in  *)
(* a tracked store, the mesh built lazily from them and memoised in a      *)
(* hash-keyed cache (property C15: "a primitive's mesh always reflects its *)
(* current parameters").                                                   *)
(*   pver     version of the parameter store                                *)
(*   meshFor  parameter version the memoised mesh was built from, -1 none  *)
(*   idcur    the version the cache believes it is for                     *)
(* Reads go through verify (dump when the id moved); parameter edits only  *)
(* change the store; apply_transform edits parameters (transform, and the  *)
(* dimensions for similarity maps) or refuses; copy builds a new primitive *)
(* from the current parameters.                                            *)
(* A bystander primitive built from the same constructor arguments is      *)
(* never edited: reading it (ReadOther) must give the mesh and parameters  *)
(* of its version 0 whatever was done to the first primitive.              *)
(***************************************************************************)
EXTENDS Integers, Sequences, FiniteSets, TLC, Json

CONSTANTS Params, TransformClasses, MaxDepth, TwoObjects
\* A second primitive of the same class lives next to the first one (both built with the same constructor
\* arguments): nothing done to the first is an edit of the second, whose parameter version therefore stays 0.
\*   omeshFor / oidcur   memoised mesh and cache id of the bystander
VARIABLES pver, meshFor, idcur, onCopy, last, hist, omeshFor, oidcur
vars == <<pver, meshFor, idcur, onCopy, last, hist, omeshFor, oidcur>>
OVER == 0    \* parameter version of the bystander: never edited
Log(r) == hist' = Append(hist, r)

Init == pver = 0 /\ meshFor = -1 /\ idcur = -1 /\ onCopy = FALSE /\ last = <<>> /\ hist = <<>> /\ omeshFor = -1 /\ oidcur = -1

SetParam(p) == /\ pver' = pver + 1 /\ UNCHANGED <<meshFor, idcur, onCopy, omeshFor, oidcur>> /\ last' = <<>>
               /\ Log([op |-> "set", p |-> p])
ApplyTransform(c) == /\ pver' = pver + 1 /\ UNCHANGED <<meshFor, idcur, onCopy, omeshFor, oidcur>> /\ last' = <<>>
                     /\ Log([op |-> "transform", c |-> c])
\* any read of the mesh or of a derived value: verify, build when absent
Read(what) == /\ LET stale == idcur # pver
                     mf == IF stale \/ meshFor = -1 THEN pver ELSE meshFor
                 IN /\ meshFor' = mf /\ idcur' = pver
                    /\ last' = [what |-> what, mesh |-> mf, params |-> pver]
              /\ UNCHANGED <<pver, onCopy, omeshFor, oidcur>>
              /\ Log([op |-> "read", what |-> what])
\* read the bystander (mesh, bounds, volume and its parameters): they are those of version OVER, whatever
\* happened to the first primitive in between
ReadOther == /\ LET stale == oidcur # OVER
                    mf == IF stale \/ omeshFor = -1 THEN OVER ELSE omeshFor
                IN /\ omeshFor' = mf /\ oidcur' = OVER
                   /\ last' = [what |-> "other", mesh |-> mf, params |-> OVER]
             /\ UNCHANGED <<pver, meshFor, idcur, onCopy>>
             /\ Log([op |-> "read_other"])
\* continue the history on a copy: constructed from the current parameters, nothing memoised
Copy == /\ ~onCopy /\ onCopy' = TRUE /\ meshFor' = -1 /\ idcur' = -1 /\ UNCHANGED <<pver, omeshFor, oidcur>> /\ last' = <<>>
        /\ Log([op |-> "copy"])

Next == /\ Len(hist) < MaxDepth
        /\ \/ \E p \in Params : SetParam(p)
           \/ \E c \in TransformClasses : ApplyTransform(c)
           \/ \E w \in {"mesh", "volume", "bounds"} : Read(w)
           \/ Copy
           \/ (TwoObjects /\ ReadOther)
Spec == Init /\ [][Next]_vars

MeshReflectsParameters == last # <<>> => last.mesh = last.params
View == <<meshFor = pver, idcur = pver, meshFor = -1, onCopy, last # <<>> /\ last.mesh # last.params, omeshFor, oidcur>>
EmitLeaf == (Len(hist) = MaxDepth) => PrintT(ToJson(hist))
P3 == {"dim1", "dim2", "transform"}
TC == {"translate", "rotate", "scale"}
\* wider alphabets (coverage audit): the resolution parameter (sections / subdivisions / polygon) is a
\* parameter like any other; mirrored placements and similarity maps are transform classes
P4 == {"dim1", "dim2", "transform", "resolution"}
TC4 == {"translate", "rotate", "scale", "mirror"}
=============================================================================
