--------------------------- MODULE PrimitiveObject ---------------------------
(***************************************************************************)
(* A primitive (Box, Sphere, Cylinder, Capsule, Extrusion): parameters in  *)
(* a tracked store, the mesh built lazily from them and memoised in a      *)
(* hash-keyed cache (property C15: "a primitive's mesh always reflects its *)
(* current parameters").                                                   *)
(*   pver     version of the parameter store                                *)
(*   meshFor  parameter version the memoised mesh was built from, -1 none  *)
(*   idcur    the version the cache believes it is for                     *)
(* Reads go through verify (dump when the id moved); parameter edits only  *)
(* change the store; apply_transform edits parameters (transform, and the  *)
(* dimensions for similarity maps) or refuses; copy builds a new primitive *)
(* from the current parameters.                                            *)
(***************************************************************************)
EXTENDS Integers, Sequences, FiniteSets, TLC, Json

CONSTANTS Params, TransformClasses, MaxDepth
VARIABLES pver, meshFor, idcur, onCopy, last, hist
vars == <<pver, meshFor, idcur, onCopy, last, hist>>
Log(r) == hist' = Append(hist, r)

Init == pver = 0 /\ meshFor = -1 /\ idcur = -1 /\ onCopy = FALSE /\ last = <<>> /\ hist = <<>>

SetParam(p) == /\ pver' = pver + 1 /\ UNCHANGED <<meshFor, idcur, onCopy>> /\ last' = <<>>
               /\ Log([op |-> "set", p |-> p])
ApplyTransform(c) == /\ pver' = pver + 1 /\ UNCHANGED <<meshFor, idcur, onCopy>> /\ last' = <<>>
                     /\ Log([op |-> "transform", c |-> c])
\* any read of the mesh or of a derived value: verify, build when absent
Read(what) == /\ LET stale == idcur # pver
                     mf == IF stale \/ meshFor = -1 THEN pver ELSE meshFor
                 IN /\ meshFor' = mf /\ idcur' = pver
                    /\ last' = [what |-> what, mesh |-> mf, params |-> pver]
              /\ UNCHANGED <<pver, onCopy>>
              /\ Log([op |-> "read", what |-> what])
\* continue the history on a copy: constructed from the current parameters, nothing memoised
Copy == /\ ~onCopy /\ onCopy' = TRUE /\ meshFor' = -1 /\ idcur' = -1 /\ UNCHANGED pver /\ last' = <<>>
        /\ Log([op |-> "copy"])

Next == /\ Len(hist) < MaxDepth
        /\ \/ \E p \in Params : SetParam(p)
           \/ \E c \in TransformClasses : ApplyTransform(c)
           \/ \E w \in {"mesh", "volume", "bounds"} : Read(w)
           \/ Copy
Spec == Init /\ [][Next]_vars

MeshReflectsParameters == last # <<>> => last.mesh = last.params
View == <<meshFor = pver, idcur = pver, meshFor = -1, onCopy, last # <<>> /\ last.mesh # last.params>>
EmitLeaf == (Len(hist) = MaxDepth) => PrintT(ToJson(hist))
P3 == {"dim1", "dim2", "transform"}
TC == {"translate", "rotate", "scale"}
\* wider alphabets (coverage audit): the resolution parameter (sections / subdivisions / polygon) is a
\* parameter like any other; mirrored placements and similarity maps are transform classes
P4 == {"dim1", "dim2", "transform", "resolution"}
TC4 == {"translate", "rotate", "scale", "mirror"}
=============================================================================
