------------------------------- MODULE Units -------------------------------
(***************************************************************************)
(* Physical units of trimesh geometry (check X01).                         *)
(*   trimesh/units.py              unit_conversion, to_inch,               *)
(*                                 units_from_metadata, _convert_units     *)
(*   trimesh/parent.py             Geometry.units (getter / setter),       *)
(*                                 apply_scale, scale                      *)
(*   trimesh/base.py, path/path.py Trimesh.convert_units,                  *)
(*                                 Path.convert_units (in place)           *)
(*   trimesh/scene/scene.py        Scene.units, Scene.convert_units        *)
(*                                 (returns a NEW scene), Scene.scaled     *)
(*                                                                         *)
(* Exact arithmetic.  Every length ratio that occurs is a product of       *)
(* powers of 2, 3, 5, 11 and 127 (1 in = 127/5000 m, 1 ft = 12 in,         *)
(* 1 yd = 36 in, 1 mile = 63360 in = 2^7.3^2.5.11 in, metric prefixes      *)
(* 10^k) and of three formal generators for the astronomical units.  A     *)
(* positive rational of that form is the vector of its exponents           *)
(*    <<e2, e3, e5, e11, e127, eAU, eLY, ePC>>,                            *)
(* multiplication is vector addition, inversion negation: exact, and never *)
(* near TLC's 32-bit limit however long the history.  The correspondence   *)
(* with ordinary reduced fractions <<num, den>> over integer micrometres   *)
(* (in = 25400, ft = 304800, mm = 1000, ...) is itself checked by TLC      *)
(* (MicrometreCrossCheck, RationalLaws).                                   *)
(*                                                                         *)
(* Two layers (DESIGN 2.2):                                                *)
(*   property level       MetresPer(u), RefFactor(a,b), and the ghost      *)
(*                        variables lastSet (the label last successfully   *)
(*                        assigned or converted to) and prod (the product  *)
(*                        of the factors of the successful conversions     *)
(*                        and of the apply_scale arguments);               *)
(*   implementation shape one action per public operation written the way  *)
(*                        the code is written (inch table, label set to    *)
(*                        the guess before the factor is looked up, Scene  *)
(*                        conversion returning a scaled copy), deviations  *)
(*                        of the pinned tree as named switches.            *)
(***************************************************************************)
EXTENDS Integers, Sequences, FiniteSets, TLC, Json

CONSTANTS Kind,              \* "geom": Trimesh / Path2D / Path3D / PointCloud;  "scene": Scene
          Raws,              \* raw label strings offered to assignment and convert_units
          RawsGeom,          \* raw labels offered to the assignment of ONE geometry of a scene
          Hints,             \* metadata names offered at creation ("-": none)
          Scales,            \* apply_scale arguments (vectors)
          MaxDepth,
          \* deviations found on the pinned tree (as built); FALSE = intended design
          GuessSticks,       \* _convert_units stores the guessed label before a lookup that then fails
          MicroinchIsMil,    \* units_to_inches.json: "microinches" = 0.001 in (a microinch is 1e-6 in)
          \* spec-level mutants (self-tests: each must make TLC report the named invariant)
          MutNoRelabel,      \* conversion does not store the desired label
          MutInverse,        \* factor inverted (desired / current)
          MutSkipPlacement,  \* Scene conversion scales geometry but not instance placements
          MutCopyDropsLabel, \* copy() loses the label
          MutCopyShares,     \* copy() shares the metadata dictionary with the original
          MutGuessAlways     \* guess = False still guesses

VARIABLES lab,      \* [Geoms -> label]   metadata["units"] of every geometry ("-" = None)
          fac,      \* scale of the geometry relative to the original (vector)
          tfac,     \* scale of the instance placements relative to the original (scene; = fac otherwise)
          prev,     \* <<>> or [lab, fac, tfac]: the object left behind by copy() / Scene.convert_units
          hint,     \* metadata["name"] given at creation
          lastSet,  \* ghost: [Geoms -> label] last successfully assigned or converted to
          prod,     \* ghost: reference product of conversion factors and apply_scale arguments
          last,     \* outcome of the last action (record), <<>> initially
          last2,    \* the outcome before that
          hist      \* history (emission only; hidden by VIEW)

vars == <<lab, fac, tfac, prev, hint, lastSet, prod, last, last2, hist>>
View == <<lab, fac, tfac, prev, hint, lastSet, prod, last, last2>>
\* emission of a state cover: one shortest history per (object state, kind of the last step)
CoverView == <<lab, fac, tfac, prev, hint, IF last = <<>> THEN <<>> ELSE <<last.op, last.q, last.raised, last.guess>>>>

None == "-"
NoPrev == <<>>
Geoms == IF Kind = "scene" THEN {"box", "cube"} ELSE {"self"}

\* ------------------------------------------------------------ exact numbers
NP == 8
Primes == <<2, 3, 5, 11, 127>>
Z == [i \in 1..NP |-> 0]
Add(a, b) == [i \in 1..NP |-> a[i] + b[i]]
Sub(a, b) == [i \in 1..NP |-> a[i] - b[i]]
E(i) == [j \in 1..NP |-> IF j = i THEN 1 ELSE 0]
RECURSIVE FzK(_, _)
FzK(n, i) == IF n = 1 THEN Z
             ELSE IF i > Len(Primes) THEN Assert(FALSE, <<"not a product of the base primes", n>>)
             ELSE IF n % Primes[i] = 0 THEN Add(E(i), FzK(n \div Primes[i], i))
             ELSE FzK(n, i + 1)
Fz(n) == FzK(n, 1)                         \* factorisation of a positive integer
Rat(n, d) == Sub(Fz(n), Fz(d))             \* n / d
Pow10(k) == [i \in 1..NP |-> IF i = 1 \/ i = 3 THEN k ELSE 0]
\* formal generators: decimal metres (strings: beyond 32 bits), decoded by the harness
FormalMetres == <<"149597870700", "9460730472580800", "30856775814913673">>
\* tolerance exponent of a comparison (relative 10^-k): the table's light year is the tropical-year
\* value 9.4605284e15 m (2.1e-5 from the IAU Julian one), its parsec has nine digits
TolExp(v) == IF v[7] # 0 THEN 4 ELSE IF v[8] # 0 THEN 8 ELSE 9

\* ---------------------------------------------- property level: metres per unit
Inch == Rat(254, 10000)
MicroInch == Add(Inch, Pow10(-6))
Mil  == Add(Inch, Pow10(-3))
Foot == Add(Inch, Fz(12))
Yard == Add(Inch, Fz(36))
Mile == Add(Inch, Fz(63360))
RefTable == {
  <<"microinches", MicroInch>>, <<"microinch", MicroInch>>, <<"mils", Mil>>, <<"mil", Mil>>,
  <<"inches", Inch>>, <<"inch", Inch>>, <<"in", Inch>>, <<"\"", Inch>>,
  <<"feet", Foot>>, <<"foot", Foot>>, <<"'", Foot>>,
  <<"yards", Yard>>, <<"yard", Yard>>, <<"miles", Mile>>, <<"mile", Mile>>,
  <<"angstroms", Pow10(-10)>>, <<"angstrom", Pow10(-10)>>,
  <<"nanometers", Pow10(-9)>>, <<"nanometer", Pow10(-9)>>,
  <<"microns", Pow10(-6)>>, <<"micron", Pow10(-6)>>,
  <<"millimeters", Pow10(-3)>>, <<"millimeter", Pow10(-3)>>, <<"mm", Pow10(-3)>>,
  <<"centimeters", Pow10(-2)>>, <<"centimeter", Pow10(-2)>>, <<"cm", Pow10(-2)>>,
  <<"decimeters", Pow10(-1)>>, <<"decimeter", Pow10(-1)>>,
  <<"meters", Z>>, <<"meter", Z>>, <<"m", Z>>,
  <<"decameters", Pow10(1)>>, <<"decameter", Pow10(1)>>,
  <<"hectometers", Pow10(2)>>, <<"hectometer", Pow10(2)>>,
  <<"kilometers", Pow10(3)>>, <<"kilometer", Pow10(3)>>,
  <<"gigameters", Pow10(9)>>, <<"gigameter", Pow10(9)>>,
  <<"au", E(6)>>,
  <<"light years", E(7)>>, <<"light year", E(7)>>,
  <<"parsecs", E(8)>>, <<"parsec", E(8)>> }
Known == {p[1] : p \in RefTable}
MetresPerF == [u \in Known |-> (CHOOSE p \in RefTable : p[1] = u)[2]]
MetresPer(u) == MetresPerF[u]
RefFactor(a, b) == Sub(MetresPer(a), MetresPer(b))   \* multiply by this to go from a to b

\* ------------------------------ implementation shape: units_to_inches.json
ToInchWith(dev) == [u \in Known |-> IF dev /\ u \in {"microinches", "microinch"} THEN Pow10(-3)
                                     ELSE Sub(MetresPer(u), Inch)]
ToInchF == ToInchWith(MicroinchIsMil)
ToInchDev == ToInchWith(TRUE)             \* the named deviation, whatever the switch says (attribution in the harness)
ToInch(u) == ToInchF[u]
\* "{float} * {unit}" labels understood by to_inch: <<normalised label, num, den, unit>>
FactorForms == {<<"2 * mm", 2, 1, "mm">>, <<"0.5*in", 1, 2, "in">>}
FF(u) == CHOOSE f \in FactorForms : f[1] = u
FormNames == {f[1] : f \in FactorForms}
HasLen(u) == u \in Known \/ u \in FormNames
InchLenF == [u \in Known \cup FormNames |->
               IF u \in Known THEN ToInch(u) ELSE Add(Rat(FF(u)[2], FF(u)[3]), ToInch(FF(u)[4]))]
RefLenF  == [u \in Known \cup FormNames |->
               IF u \in Known THEN MetresPer(u) ELSE Add(Rat(FF(u)[2], FF(u)[3]), MetresPer(FF(u)[4]))]
InchLen(u) == InchLenF[u]
RefLen(u)  == RefLenF[u]

\* raw strings and what str(value).lower().strip() makes of them
RawTable == {<<"mm", "mm">>, <<" MM ", "mm">>, <<"Inches", "inches">>, <<"in", "in">>, <<"m", "m">>,
             <<"furlongs", "furlongs">>, <<"2 * mm", "2 * mm">>, <<"0.5*IN", "0.5*in">>,
             <<"Feet ", "feet">>, <<"cm", "cm">>, <<"microinches", "microinches">>, <<"mils", "mils">>,
             <<"Miles", "miles">>, <<"angstrom", "angstrom">>, <<"au", "au">>, <<"\"", "\"">>,
             <<"Light Years", "light years">>, <<"parsec", "parsec">>, <<"mm * 2", "mm * 2">>,
             <<"yards", "yards">>, <<"kilometers", "kilometers">>, <<"", "">>}
NormF == [r \in {p[1] : p \in RawTable} |-> (CHOOSE p \in RawTable : p[1] = r)[2]]
Norm(raw) == NormF[raw]

\* metadata names and the unit units_from_metadata finds in them (needs the substring "unit";
\* delimiters "_-." become blanks; tokens lose "units"/"unit"; first token that is a known unit)
HintTable == {<<"-", None>>, <<"bracket_units_mm", "mm">>, <<"Gear-UNIT-IN.v2", "in">>,
              <<"plate_mm", None>>, <<"units unknown", None>>, <<"a.unit.meters.x", "meters">>}
HintUnitF == [h \in {p[1] : p \in HintTable} |-> (CHOOSE p \in HintTable : p[1] = h)[2]]
HintUnit(h) == HintUnitF[h]

\* fixed-point decimal logarithms (x 10^6) for the one magnitude comparison in the code:
\* units_from_metadata guesses "millimeters" when obj.scale > 100 and "inches" otherwise
Log6 == <<301030, 477121, 698970, 1041393, 2103804, 11174925, 15975925, 16489351>>
LogVal(v) == LET RECURSIVE S(_)
                 S(i) == IF i = 0 THEN 0 ELSE v[i] * Log6[i] + S(i - 1)
             IN S(NP)
BaseScale == IF Kind = "scene" THEN 22 ELSE 13        \* AABB diagonal of the original object
LogThr == IF Kind = "scene" THEN 657577 ELSE 886057   \* 10^6 log10(100 / BaseScale)
GuessOf(f) == IF LogVal(f) > LogThr THEN "millimeters" ELSE "inches"
\* Geometry.scale is documented as a loose order of magnitude: a diagonal below tol.zero = 1e-13 reads as 1.0
\* (Scene.scale has no such clamp)
TinyThr == -14113943                                   \* 10^6 log10(1e-13 / 13)
ScaleClamped(f) == Kind = "geom" /\ LogVal(f) < TinyThr

\* every entry of Log6 is rounded to 0.5e-6: with |exponents| summing to at most 400 the sum is off by at most
\* 200; magnitudes no further than 200 (0.05 %) to one of the two thresholds are not exercised
Abs(x) == IF x < 0 THEN -x ELSE x
RECURSIVE SumAbs(_, _)
SumAbs(v, i) == IF i = 0 THEN 0 ELSE Abs(v[i]) + SumAbs(v, i - 1)
GuessDecidable == Abs(LogVal(fac) - LogThr) > 200
ClampDecidable == Abs(LogVal(fac) - TinyThr) > 200
LogBudget == SumAbs(fac, NP) <= 400
\* ---------------------------------------------------------------- the machine
ObjLabel(l) == IF \A g, h \in Geoms : l[g] = l[h] THEN l[CHOOSE g \in Geoms : TRUE] ELSE None
Mixed(l) == \E g, h \in Geoms : l[g] # l[h]
Snap == [lab |-> lab, fac |-> fac, tfac |-> tfac, tol |-> TolExp(fac)]

Init == /\ lab = [g \in Geoms |-> None] /\ fac = Z /\ tfac = Z /\ prev = NoPrev
        /\ hint \in Hints
        /\ lastSet = [g \in Geoms |-> None] /\ prod = Z
        /\ last = <<>> /\ last2 = <<>> /\ hist = <<>>

\* outcome record (primed variables: evaluated after the conjuncts that define them)
Out(op, raw, guess, k, q, g, raised, dev, src) ==
    [op |-> op, raw |-> raw, guess |-> guess, k |-> k, q |-> q, g |-> g, raised |-> raised, dev |-> dev,
     src |-> src, before |-> Snap, pbefore |-> prev,
     lab |-> lab', fac |-> fac', tfac |-> tfac', prev |-> prev', tol |-> TolExp(fac'),
     clamp |-> ScaleClamped(fac')]
Step(rec) == /\ last' = rec /\ last2' = last /\ hist' = Append(hist, rec)

\* obj.units = raw   (Geometry.units setter; Scene.units setter assigns every geometry)
Assign(S, raw, opname, gname) ==
    /\ lab' = [g \in Geoms |-> IF g \in S THEN Norm(raw) ELSE lab[g]]
    /\ lastSet' = [g \in Geoms |-> IF g \in S THEN Norm(raw) ELSE lastSet[g]]
    /\ prev' = IF MutCopyShares /\ prev # NoPrev
               THEN [prev EXCEPT !.lab = [g \in Geoms |-> IF g \in S THEN Norm(raw) ELSE prev.lab[g]]]
               ELSE prev
    /\ UNCHANGED <<fac, tfac, hint, prod>>
    /\ Step(Out(opname, raw, FALSE, Z, "-", gname, FALSE, "", None))

\* obj.convert_units(raw, guess)
\*   Trimesh / Path / (PointCloud through units._convert_units): in place
\*   Scene: returns a scaled copy, the scene itself is not touched
Convert(raw, guess) ==
    LET cur == ObjLabel(lab)
        dst == Norm(raw)
        \* units_from_metadata: metadata hint, else guess from the scale (or ValueError)
        found == IF HintUnit(hint) # None THEN HintUnit(hint)
                 ELSE IF guess \/ MutGuessAlways THEN GuessOf(fac) ELSE None
        src == IF cur # None THEN cur ELSE found
        ok  == src # None /\ HasLen(src) /\ HasLen(dst)
        f   == IF MutInverse THEN Sub(InchLen(dst), InchLen(src)) ELSE Sub(InchLen(src), InchLen(dst))
        fref == Sub(RefLen(src), RefLen(dst))
        \* _convert_units: `obj.units = units_from_metadata(..)` happens before unit_conversion
        sticks == Kind = "geom" /\ GuessSticks /\ cur = None /\ src # None /\ ~ok
    IN
    \* a scene whose geometries disagree reports no units; what a guess should mean there is not stated
    /\ Mixed(lab) => (~guess /\ HintUnit(hint) = None)
    \* the guess compares a magnitude: not exercised within the error of the fixed-point logarithms
    /\ (cur = None /\ HintUnit(hint) = None /\ (guess \/ MutGuessAlways)) => GuessDecidable
    /\ IF ok
       THEN /\ lab' = [g \in Geoms |-> IF MutNoRelabel THEN (IF cur = None /\ Kind = "geom" THEN src ELSE lab[g]) ELSE dst]
            /\ fac' = Add(fac, f)
            /\ tfac' = IF MutSkipPlacement /\ Kind = "scene" THEN tfac ELSE Add(tfac, f)
            /\ lastSet' = [g \in Geoms |-> dst]
            /\ prod' = Add(prod, fref)
            /\ prev' = IF Kind = "scene" THEN Snap ELSE prev
       ELSE /\ lab' = IF sticks THEN [g \in Geoms |-> src] ELSE lab
            /\ UNCHANGED <<fac, tfac, lastSet, prod, prev>>
    /\ UNCHANGED hint
    /\ Step(Out("convert", raw, guess, Z, "-", "-", ~ok,
                IF sticks THEN "FailedConvertKeepsGuessedUnits"
                ELSE IF ok /\ f # fref THEN "MicroinchTableValue" ELSE "",
                IF src = None THEN None ELSE src))

\* obj.copy() / copy.copy(obj) / copy.deepcopy(obj); the history continues on one of the two objects
Copy ==
    /\ prev' = Snap
    /\ lab' = IF MutCopyDropsLabel THEN [g \in Geoms |-> None] ELSE lab
    /\ UNCHANGED <<fac, tfac, hint, lastSet, prod>>
    /\ Step(Out("copy", "", FALSE, Z, "-", "-", FALSE, "", None))

\* obj.apply_scale(k)
Scale(k) ==
    /\ fac' = Add(fac, k) /\ tfac' = Add(tfac, k) /\ prod' = Add(prod, k)
    /\ UNCHANGED <<lab, prev, hint, lastSet>>
    /\ Step(Out("scale", "", FALSE, k, "-", "-", FALSE, "", None))

\* obj.scale  |  obj.bounds and obj.extents   (cached properties: the value must be the current one)
Read(q) ==
    /\ q = "scale" => ClampDecidable
    /\ UNCHANGED <<lab, fac, tfac, prev, hint, lastSet, prod>>
    /\ Step(Out("read", "", FALSE, Z, q, "-", FALSE, "", None))

Reads == {"scale", "bounds"}
Next == /\ Len(hist) < MaxDepth
        /\ \/ \E r \in Raws : Assign(Geoms, r, "assign", "-")
           \/ Kind = "scene" /\ \E g \in Geoms, r \in RawsGeom : Assign({g}, r, "assign_geom", g)
           \/ \E r \in Raws, gs \in BOOLEAN : Convert(r, gs)
           \/ Copy
           \/ \E k \in Scales : Scale(k)
           \/ \E q \in Reads : Read(q)
Spec == Init /\ [][Next]_vars

\* ------------------------------------------------------------- properties
\* the label is the last one successfully assigned or converted to
LabelIsLastSet == lab = lastSet
\* the geometry is the original times the exact product of the factors of the successful conversions
GeometryIsProduct == fac = prod /\ tfac = prod
IsConv == last # <<>> /\ last.op = "convert"
\* a conversion that cannot be performed raises and changes nothing
FailedConvertChangesNothing == (IsConv /\ last.raised) => (Snap = last.before /\ prev = last.pbefore)
\* ... and the two ways it cannot be performed do raise
NoUnitsNoGuessRaises ==
    (IsConv /\ ObjLabel(last.before.lab) = None /\ HintUnit(hint) = None /\ ~last.guess) => last.raised
UnknownNameRaises == (IsConv /\ ~HasLen(Norm(last.raw))) => last.raised
KnownConverts == (IsConv /\ last.src # None /\ HasLen(last.src) /\ HasLen(Norm(last.raw))) => ~last.raised
\* a conversion to the current unit is a no-op
ConvertToCurrentIsNoop ==
    (IsConv /\ ~last.raised /\ Norm(last.raw) = ObjLabel(last.before.lab)) => (fac = last.before.fac /\ tfac = last.before.tfac)
\* converting back returns the original geometry
RoundTrip ==
    (IsConv /\ ~last.raised /\ last2 # <<>> /\ last2.op = "convert" /\ ~last2.raised
        /\ last2.src # None /\ Norm(last.raw) = last2.src)
    => (fac = last2.before.fac /\ tfac = last2.before.tfac)
\* after a conversion the object and every geometry of a scene carry the desired label
UnitsAgreeAfterConvert == (IsConv /\ ~last.raised) => (\A g \in Geoms : lab[g] = Norm(last.raw))
\* copies carry label and geometry; nothing done to one object changes the other
CopyCarries == (last # <<>> /\ last.op = "copy") => (Snap = last.before /\ prev = last.before)
LeftBehindFrozen ==
    (last # <<>> /\ last.op # "copy" /\ ~(Kind = "scene" /\ last.op = "convert" /\ ~last.raised))
    => prev = last.pbefore
SceneConvertLeavesOriginal ==
    (Kind = "scene" /\ IsConv /\ ~last.raised) => prev = last.before

\* ----------------------------------------------- the table (run with MaxDepth = 0)
\* unit_conversion(a,b) unit_conversion(b,a) = 1 ; unit_conversion(a,c) = unit_conversion(a,b) unit_conversion(b,c)
AsBuiltFactor(a, b) == Sub(ToInch(a), ToInch(b))
Live == hist = hist      \* keeps TLC from evaluating the table predicates eagerly as constant definitions in every run
UnitLaws == Live /\ \A a \in Known, b \in Known :
               /\ Add(RefFactor(a, b), RefFactor(b, a)) = Z
               /\ Add(AsBuiltFactor(a, b), AsBuiltFactor(b, a)) = Z
               /\ \A c \in Known : /\ RefFactor(a, c) = Add(RefFactor(a, b), RefFactor(b, c))
                                   /\ AsBuiltFactor(a, c) = Add(AsBuiltFactor(a, b), AsBuiltFactor(b, c))
\* the inch table of the implementation realises metres_per(a) / metres_per(b)
TableAgrees == Live /\ \A a \in Known, b \in Known : AsBuiltFactor(a, b) = RefFactor(a, b)
\* distinct lengths never fall inside the np.allclose(scale, 1.0) window of Scene.scaled
NoNearUnitFactor == Live /\ \A a \in Known, b \in Known : RefFactor(a, b) # Z => Abs(LogVal(RefFactor(a, b))) > 1000

\* ordinary fractions over integer micrometres for the units where that fits 32 bits
Micrometres == {<<"microns", 1>>, <<"mm", 1000>>, <<"millimeters", 1000>>, <<"cm", 10000>>, <<"centimeters", 10000>>,
                <<"decimeters", 100000>>, <<"m", 1000000>>, <<"meters", 1000000>>, <<"decameters", 10000000>>,
                <<"hectometers", 100000000>>, <<"kilometers", 1000000000>>,
                <<"in", 25400>>, <<"inches", 25400>>, <<"foot", 304800>>, <<"feet", 304800>>, <<"yards", 914400>>,
                <<"miles", 1609344000>>}
RECURSIVE Gcd(_, _)
Gcd(a, b) == IF b = 0 THEN a ELSE Gcd(b, a % b)
Reduce(n, d) == <<n \div Gcd(n, d), d \div Gcd(n, d)>>
RatMul(x, y) == LET g1 == Gcd(x[1], y[2])  g2 == Gcd(y[1], x[2])       \* cross-cancel first: no overflow
                IN <<(x[1] \div g1) * (y[1] \div g2), (x[2] \div g2) * (y[2] \div g1)>>
RECURSIVE Pow(_, _)
Pow(b, e) == IF e = 0 THEN 1 ELSE b * Pow(b, e - 1)
Decode(v) == LET RECURSIVE N(_, _)
                 N(i, s) == IF i = 0 THEN 1
                            ELSE (IF s * v[i] > 0 THEN Pow(Primes[i], s * v[i]) ELSE 1) * N(i - 1, s)
             IN <<N(5, 1), N(5, -1)>>
UMName(p) == p[1]
MicrometreCrossCheck ==
    Live /\ \A p \in Micrometres, q \in Micrometres :
        /\ RefFactor(UMName(p), UMName(q)) = Rat(p[2], q[2])
        /\ Decode(RefFactor(UMName(p), UMName(q))) = Reduce(p[2], q[2])
RationalLaws ==
    Live /\ \A p \in Micrometres, q \in Micrometres :
        /\ RatMul(Reduce(p[2], q[2]), Reduce(q[2], p[2])) = <<1, 1>>
        /\ \A r \in Micrometres : Reduce(p[2], r[2]) = RatMul(Reduce(p[2], q[2]), Reduce(q[2], r[2]))
\* the logarithm table against exact integer arithmetic on small vectors
LogTableSound ==
    Live /\ \A a \in -2..2, b \in -2..2, c \in -2..2, d \in -1..1, e \in -1..1 :
        LET v == <<a, b, c, d, e, 0, 0, 0>>  nd == Decode(v)
        IN (BaseScale * nd[1] > 100 * nd[2]) <=> (LogVal(v) > LogThr)
TableInv == /\ UnitLaws /\ NoNearUnitFactor /\ MicrometreCrossCheck /\ RationalLaws /\ LogTableSound

\* --------------------------------------------------------------- emission
\* the emitted step: arguments, outcome and the state after it (the state before is the previous step's)
Slim(r) == [op |-> r.op, raw |-> r.raw, guess |-> r.guess, k |-> r.k, q |-> r.q, g |-> r.g, raised |-> r.raised,
            dev |-> r.dev, src |-> r.src, lab |-> r.lab, fac |-> r.fac, tfac |-> r.tfac, prev |-> r.prev,
            tol |-> r.tol, clamp |-> r.clamp]
EmitRec == [kind |-> Kind, hint |-> hint, h |-> [i \in 1..Len(hist) |-> Slim(hist[i])]]
EmitAll  == PrintT(ToJson(EmitRec))
EmitLeaf == (Len(hist) = MaxDepth) => PrintT(ToJson(EmitRec))
SetToSeq(S) == LET RECURSIVE Ser(_)
                   Ser(T) == IF T = {} THEN <<>> ELSE LET x == CHOOSE x \in T : TRUE IN <<x>> \o Ser(T \ {x})
               IN Ser(S)
\* reference table for the harness: every ordered pair of known labels, the factor-form labels, the scenario
PairSeq == IF Live THEN {[a |-> a, b |-> b, f |-> RefFactor(a, b), asb |-> Sub(ToInchDev[a], ToInchDev[b]), tol |-> TolExp(RefFactor(a, b))]
                     : a \in Known, b \in Known} ELSE {}
FormSeq == ({[a |-> f[1], b |-> u, f |-> Sub(RefLen(f[1]), RefLen(u)), known |-> TRUE] : f \in FactorForms, u \in {"mm", "in", "m"}}
                    \cup {[a |-> p[2], b |-> "mm", f |-> Z, known |-> FALSE] : p \in {q \in RawTable : ~HasLen(q[2])}})
\* the objects: integer boxes; scene = two instances of `box` under a translated parent and one of `cube`
\* (world AABB centre c and size s of every instance; union: lo (8,-3,-7) hi (20,9,7), diagonal 22)
GeomObjects == [mesh  |-> [lo |-> <<1, 2, 3>>, hi |-> <<4, 6, 15>>, scale |-> 13],
                path3 |-> [lo |-> <<1, 2, 3>>, hi |-> <<4, 6, 15>>, scale |-> 13],
                cloud |-> [lo |-> <<1, 2, 3>>, hi |-> <<4, 6, 15>>, scale |-> 13],
                path2 |-> [lo |-> <<1, 2>>, hi |-> <<6, 14>>, scale |-> 13]]
SceneObject == [parent |-> <<10, 0, 0>>,
                box |-> <<4, 6, 12>>, cube |-> <<2, 2, 2>>,
                inst |-> <<[node |-> "a", geom |-> "box",  rot |-> 0, t |-> <<0, 0, -1>>, under |-> "p",
                            c2 |-> <<20, 0, -2>>, s |-> <<4, 6, 12>>],
                           [node |-> "b", geom |-> "box",  rot |-> 1, t |-> <<7, 7, 1>>, under |-> "p",
                            c2 |-> <<34, 14, 2>>, s |-> <<6, 4, 12>>],
                           [node |-> "c", geom |-> "cube", rot |-> 0, t |-> <<15, 1, 0>>, under |-> "world",
                            c2 |-> <<30, 2, 0>>, s |-> <<2, 2, 2>>]>>,
                lo |-> <<8, -3, -7>>, hi |-> <<20, 9, 7>>, scale |-> 22]
ScenarioSound ==
    /\ Live
    /\ \A k \in DOMAIN GeomObjects :
          LET o == GeomObjects[k]
              RECURSIVE SS(_)
              SS(i) == IF i = 0 THEN 0 ELSE (o.hi[i] - o.lo[i]) * (o.hi[i] - o.lo[i]) + SS(i - 1)
          IN SS(Len(o.lo)) = o.scale * o.scale
    /\ LET o == SceneObject IN
          /\ \A i \in 1..3 :
                /\ 2 * o.lo[i] = CHOOSE m \in {x.c2[i] - x.s[i] : x \in {o.inst[j] : j \in 1..3}} :
                                     \A x \in {o.inst[j] : j \in 1..3} : m <= x.c2[i] - x.s[i]
                /\ 2 * o.hi[i] = CHOOSE m \in {x.c2[i] + x.s[i] : x \in {o.inst[j] : j \in 1..3}} :
                                     \A x \in {o.inst[j] : j \in 1..3} : m >= x.c2[i] + x.s[i]
          /\ (o.hi[1] - o.lo[1]) * (o.hi[1] - o.lo[1]) + (o.hi[2] - o.lo[2]) * (o.hi[2] - o.lo[2])
                + (o.hi[3] - o.lo[3]) * (o.hi[3] - o.lo[3]) = o.scale * o.scale
          /\ \A j \in 1..3 : LET x == o.inst[j]  off == IF x.under = "p" THEN o.parent ELSE <<0, 0, 0>>
                             IN \A i \in 1..3 : x.c2[i] = 2 * (off[i] + x.t[i])
EmitTable == Live /\ PrintT(ToJson([known |-> Known, pairs |-> PairSeq, forms |-> FormSeq,
                            primes |-> Primes, formal |-> FormalMetres,
                            raws |-> RawTable, hints |-> HintTable,
                            geom |-> GeomObjects, scene |-> SceneObject]))

\* ------------------------------------------------ constants for the configs
RawsQuick == {"mm", " MM ", "Inches", "in", "m", "furlongs", "2 * mm"}
RawsCover == RawsQuick \cup {"Feet ", "cm", "0.5*IN", "mm * 2", ""}
RawsWide  == {p[1] : p \in RawTable}
RawsMicro == {"mm", "microinches", "mils"}
RawsTwo   == {"mm", "in"}
HintsNone == {"-"}
HintsAll  == {p[1] : p \in HintTable}
HintsSome == {"-", "bracket_units_mm", "units unknown"}
Scales2   == {<<0, 0, 2, 0, 0, 0, 0, 0>>, <<-1, 0, 0, 0, 0, 0, 0, 0>>}     \* 25, 1/2
=============================================================================
