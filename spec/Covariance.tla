----------------------------- MODULE Covariance -----------------------------
(***************************************************************************)
(* Homogeneous transforms act covariantly on every geometry (property C04) *)
(* Exact reference over integer affine maps (cube rotations, mirrors,      *)
(* integer uniform / per-axis scales, unimodular shears, integer           *)
(* translations) and a batch validator of recorded applications.           *)
(*                                                                         *)
(* A record describes one history on one geometry:                         *)
(*   pts, faces      the geometry before (integer points, 1-based faces)   *)
(*   maps            the sequence of affine maps applied, in order         *)
(*   restore         TRUE when the last map is the inverse of the product  *)
(*                   of the earlier ones (the geometry must come back)     *)
(*   obs             what the real object reports afterwards, snapped to   *)
(*                   integers (coordinates times obs.den)                  *)
(* Expected: every point p moves to M.p with M the product of the maps     *)
(* (applying A then B equals applying B.A); counts and connectivity are    *)
(* kept; faces are re-wound exactly when det M < 0, i.e. the oriented      *)
(* triangles of the result are the images of the original ones, reversed   *)
(* iff det M < 0; 6*volume scales by |det M|; the centre of mass maps      *)
(* through M; under similarity maps area scales by s^2 and the inertia     *)
(* tensor about the centre of mass by s^5 R I R^T.                         *)
(***************************************************************************)
EXTENDS Integers, Sequences, FiniteSets, TLC, Json

Cases == ndJsonDeserialize("cases.ndjson")
VARIABLE i

IdL == <<<<1, 0, 0>>, <<0, 1, 0>>, <<0, 0, 1>>>>
IdA == [l |-> IdL, t |-> <<0, 0, 0>>]
Dot(r, v) == r[1] * v[1] + r[2] * v[2] + r[3] * v[3]
MulLV(L, v) == <<Dot(L[1], v), Dot(L[2], v), Dot(L[3], v)>>
Col(L, j) == <<L[1][j], L[2][j], L[3][j]>>
MulLL(A, B) == [r \in 1..3 |-> <<Dot(A[r], Col(B, 1)), Dot(A[r], Col(B, 2)), Dot(A[r], Col(B, 3))>>]
Transpose(L) == <<Col(L, 1), Col(L, 2), Col(L, 3)>>
AddV(a, b) == <<a[1] + b[1], a[2] + b[2], a[3] + b[3]>>
ScaleV(k, a) == <<k * a[1], k * a[2], k * a[3]>>
Apply(A, p) == AddV(MulLV(A.l, p), A.t)
Compose(A, B) == [l |-> MulLL(A.l, B.l), t |-> AddV(MulLV(A.l, B.t), A.t)]      \* A after B
Det(L) == L[1][1] * (L[2][2] * L[3][3] - L[2][3] * L[3][2])
        - L[1][2] * (L[2][1] * L[3][3] - L[2][3] * L[3][1])
        + L[1][3] * (L[2][1] * L[3][2] - L[2][2] * L[3][1])
Abs(x) == IF x < 0 THEN -x ELSE x
FromRec(e) == [l |-> e.l, t |-> e.t]

\* product of a sequence of maps applied in order: maps[1] first
RECURSIVE Total(_, _)
Total(maps, k) == IF k = 0 THEN IdA ELSE Compose(FromRec(maps[k]), Total(maps, k - 1))
MapOf(c) == IF c.restore THEN IdA ELSE Total(c.maps, Len(c.maps))

TriKey(a, b, c) == {<<a, b>>, <<b, c>>, <<c, a>>}
BagOf(s) == [x \in {s[k] : k \in 1..Len(s)} |-> Cardinality({k \in 1..Len(s) : s[k] = x})]

\* a similarity: L^T L = s^2 I
IsSimilarity(L) == LET G == MulLL(Transpose(L), L) IN
                   /\ G[1][1] = G[2][2] /\ G[2][2] = G[3][3]
                   /\ G[1][2] = 0 /\ G[1][3] = 0 /\ G[2][3] = 0
ScaleSq(L) == Dot(L[1], L[1])

Clause(c) ==
    LET M == MapOf(c)
        d == c.obs.den
        n == Len(c.pts)
        img == [k \in 1..n |-> ScaleV(d, Apply(M, c.pts[k]))]
        det == Det(M.l)
    IN IF Len(c.obs.pts) # n THEN "point_count_changed"
       \* every point moves to M.p; order of points is kept (attached data stays aligned)
       ELSE IF \E k \in 1..n : c.obs.pts[k] # img[k] THEN "points_move_to_Mp"
       ELSE IF Len(c.faces) > 0 /\ Len(c.obs.faces) # Len(c.faces) THEN "face_count_changed"
       ELSE IF Len(c.faces) > 0 /\
               LET obsTris == [k \in 1..Len(c.obs.faces) |->
                                 TriKey(c.obs.pts[c.obs.faces[k][1]], c.obs.pts[c.obs.faces[k][2]], c.obs.pts[c.obs.faces[k][3]])]
                   expTris == [k \in 1..Len(c.faces) |->
                                 IF det < 0
                                 THEN TriKey(img[c.faces[k][3]], img[c.faces[k][2]], img[c.faces[k][1]])
                                 ELSE TriKey(img[c.faces[k][1]], img[c.faces[k][2]], img[c.faces[k][3]])]
               IN obsTris # expTris     \* face k stays face k (per-face data stays attached)
            THEN "rewound_iff_negative_determinant"
       ELSE IF c.obs.has_vol /\ c.obs.vol6 # Abs(det) * c.vol6 * d * d * d THEN "volume_scales_by_abs_det"
       \* centre of mass maps through M: c.com and c.obs.com are both multiplied by c.comden (and obs by d)
       ELSE IF c.obs.has_com /\ c.obs.com # ScaleV(d, AddV(MulLV(M.l, c.com), ScaleV(c.comden, M.t))) THEN "centre_of_mass_maps_through_M"
       ELSE IF c.obs.has_area /\ IsSimilarity(M.l) /\ c.obs.area2 # ScaleSq(M.l) * c.area2 * d * d THEN "area_scales_by_s2"
       \* inertia about the centre of mass under M = s.Q (Q orthogonal): s^5 Q I Q^T = |det L| . L I L^T
       ELSE IF c.obs.has_inertia /\ IsSimilarity(M.l) /\
               c.obs.inertia # [r \in 1..3 |-> ScaleV(Abs(det) * d * d * d * d * d, MulLL(MulLL(M.l, c.inertia), Transpose(M.l))[r])]
            THEN "inertia_tensor_law"
       ELSE "ok"

Init == i = 1
Next == i < Len(Cases) /\ i' = i + 1
Report == LET c == Cases[i]  cl == IF c.exc # "" THEN "raised" ELSE Clause(c)
          IN IF cl # "ok" THEN PrintT(<<"REJECT", c.id, cl>>) ELSE TRUE

\* group laws of the reference itself on the recorded maps (sanity of the oracle)
RefLaws == LET c == Cases[i] IN
           Len(c.maps) >= 2 =>
              /\ Det(Total(c.maps, 2).l) = Det(c.maps[1].l) * Det(c.maps[2].l)
              /\ \A k \in 1..Len(c.pts) :
                    Apply(Total(c.maps, 2), c.pts[k]) = Apply(FromRec(c.maps[2]), Apply(FromRec(c.maps[1]), c.pts[k]))
=============================================================================
