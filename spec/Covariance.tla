----------------------------- MODULE Covariance -----------------------------
(***************************************************************************)
(* Homogeneous transforms act covariantly on every geometry (property C04) *)
(* Exact reference over rational affine maps with integer numerators       *)
(* (cube rotations, mirrors, integer uniform / per-axis scales, unimodular *)
(* shears, integer translations, the I + c.J stretches and mirrors along   *)
(* (1,1,1), rational rotations and Householder mirrors about general       *)
(* planes, halving, singular projections) and a batch validator of         *)
(* recorded applications.                                                  *)
(*                                                                         *)
(* A record describes one history on one geometry:                         *)
(*   pts, faces      the geometry before (integer points, 1-based faces)   *)
(*   maps            the sequence of affine maps applied, in order; a map  *)
(*                   is p -> (l.p + t) / den  (den = 1 when absent)        *)
(*   restore         TRUE when the last map is the inverse of the product  *)
(*                   of the earlier ones (the geometry must come back)     *)
(*   obs             what the real object reports afterwards, snapped to   *)
(*                   integers (coordinates times obs.den)                  *)
(* Which entry point delivered a map (apply_transform with the matrix in   *)
(* some container / dtype / memory layout, apply_scale, apply_translation),*)
(* what was read before or between the maps and which data was attached    *)
(* is the harness' business: the expected geometry depends on the maps     *)
(* only.                                                                   *)
(* Expected: every point p moves to M.p with M the product of the maps     *)
(* (applying A then B equals applying B.A); counts and connectivity are    *)
(* kept; faces are re-wound exactly when det M < 0, i.e. the oriented      *)
(* triangles of the result are the images of the original ones, reversed   *)
(* iff det M < 0 (a singular M flattens the surface: the orientation of    *)
(* a face is then left open, its three corners are not); 6*volume scales   *)
(* by |det M|; the centre of mass maps through M; the axis-aligned bounds  *)
(* are the bounds of the moved points; under similarity maps area scales   *)
(* by s^2 and the inertia tensor about the centre of mass by s^5 R I R^T;  *)
(* the area of a planar region scales by |det| of the planar map whatever  *)
(* the map, the length of a planar curve by s under similarities.          *)
(***************************************************************************)
EXTENDS Integers, Sequences, FiniteSets, TLC, Json

Cases == ndJsonDeserialize("cases.ndjson")
VARIABLE i

IdL == <<<<1, 0, 0>>, <<0, 1, 0>>, <<0, 0, 1>>>>
IdA == [l |-> IdL, t |-> <<0, 0, 0>>, den |-> 1]
Dot(r, v) == r[1] * v[1] + r[2] * v[2] + r[3] * v[3]
MulLV(L, v) == <<Dot(L[1], v), Dot(L[2], v), Dot(L[3], v)>>
Col(L, j) == <<L[1][j], L[2][j], L[3][j]>>
MulLL(A, B) == [r \in 1..3 |-> <<Dot(A[r], Col(B, 1)), Dot(A[r], Col(B, 2)), Dot(A[r], Col(B, 3))>>]
Transpose(L) == <<Col(L, 1), Col(L, 2), Col(L, 3)>>
AddV(a, b) == <<a[1] + b[1], a[2] + b[2], a[3] + b[3]>>
ScaleV(k, a) == <<k * a[1], k * a[2], k * a[3]>>
\* a map is p -> (l.p + t) / den ; Num(A, p) is the numerator of the image of an integer point
Num(A, p) == AddV(MulLV(A.l, p), A.t)
\* A after B:  (A.l (B.l p + B.t) / B.den + A.t) / A.den
Compose(A, B) == [l |-> MulLL(A.l, B.l), t |-> AddV(MulLV(A.l, B.t), ScaleV(B.den, A.t)), den |-> A.den * B.den]
Det(L) == L[1][1] * (L[2][2] * L[3][3] - L[2][3] * L[3][2])
        - L[1][2] * (L[2][1] * L[3][3] - L[2][3] * L[3][1])
        + L[1][3] * (L[2][1] * L[3][2] - L[2][2] * L[3][1])
Abs(x) == IF x < 0 THEN -x ELSE x
FromRec(e) == [l |-> e.l, t |-> e.t, den |-> IF "den" \in DOMAIN e THEN e.den ELSE 1]
Pow(x, k) == IF k = 2 THEN x * x ELSE IF k = 3 THEN x * x * x ELSE x * x * x * x * x

\* product of a sequence of maps applied in order: maps[1] first
RECURSIVE Total(_, _)
Total(maps, k) == IF k = 0 THEN IdA ELSE Compose(FromRec(maps[k]), Total(maps, k - 1))
MapOf(c) == IF c.restore THEN IdA ELSE Total(c.maps, Len(c.maps))

TriKey(a, b, c) == {<<a, b>>, <<b, c>>, <<c, a>>}
BagOf(s) == [x \in {s[k] : k \in 1..Len(s)} |-> Cardinality({k \in 1..Len(s) : s[k] = x})]

\* a similarity: L^T L = s^2 I
IsSimilarity(L) == LET G == MulLL(Transpose(L), L) IN
                   /\ G[1][1] = G[2][2] /\ G[2][2] = G[3][3]
                   /\ G[1][2] = 0 /\ G[1][3] = 0 /\ G[2][3] = 0
ScaleSq(L) == Dot(L[1], L[1])
\* planar records (2D paths): l = <<<<a, b, 0>>, <<c, e, 0>>, <<0, 0, den>>>> ; the 2x2 block is a similarity
\* when its columns are orthogonal and equally long; its scale^2 is ColSq / den^2
ColSq(L) == L[1][1] * L[1][1] + L[2][1] * L[2][1]
IsSim2(L) == /\ ColSq(L) = L[1][2] * L[1][2] + L[2][2] * L[2][2]
             /\ L[1][1] * L[1][2] + L[2][1] * L[2][2] = 0

Has(c, f) == f \in DOMAIN c.obs /\ c.obs[f]

Clause(c) ==
    LET M == MapOf(c)
        d == c.obs.den            \* observed coordinates are multiplied by d; d is a multiple of M.den
        q == M.den
        n == Len(c.pts)
        \* q * d * (image of point k): the observed integer coordinates times q must equal it
        img == [k \in 1..n |-> ScaleV(d, Num(M, c.pts[k]))]
        got == [k \in 1..Len(c.obs.pts) |-> ScaleV(q, c.obs.pts[k])]
        det == Det(M.l)           \* det M = det / q^3 : same sign
        iden == IF "iden" \in DOMAIN c.obs THEN c.obs.iden ELSE d * d * d * d * d
    IN IF Len(c.obs.pts) # n THEN "point_count_changed"
       \* every point moves to M.p; order of points is kept (attached data stays aligned)
       ELSE IF \E k \in 1..n : got[k] # img[k] THEN "points_move_to_Mp"
       ELSE IF Len(c.faces) > 0 /\ Len(c.obs.faces) # Len(c.faces) THEN "face_count_changed"
       ELSE IF Len(c.faces) > 0 /\ det = 0 /\
               \E k \in 1..Len(c.faces) :
                   {got[c.obs.faces[k][j]] : j \in 1..3} # {img[c.faces[k][j]] : j \in 1..3}
            THEN "face_corners_changed"
       ELSE IF Len(c.faces) > 0 /\ det # 0 /\
               LET obsTris == [k \in 1..Len(c.obs.faces) |->
                                 TriKey(got[c.obs.faces[k][1]], got[c.obs.faces[k][2]], got[c.obs.faces[k][3]])]
                   expTris == [k \in 1..Len(c.faces) |->
                                 IF det < 0
                                 THEN TriKey(img[c.faces[k][3]], img[c.faces[k][2]], img[c.faces[k][1]])
                                 ELSE TriKey(img[c.faces[k][1]], img[c.faces[k][2]], img[c.faces[k][3]])]
               IN obsTris # expTris     \* face k stays face k (per-face data stays attached)
            THEN "rewound_iff_negative_determinant"
       \* 6 V' d^3 = |det| / q^3 . 6 V . d^3
       ELSE IF c.obs.has_vol /\ c.obs.vol6 * Pow(q, 3) # Abs(det) * c.vol6 * Pow(d, 3) THEN "volume_scales_by_abs_det"
       \* centre of mass maps through M: c.com and c.obs.com are both multiplied by c.comden (and obs by d)
       ELSE IF c.obs.has_com /\ ScaleV(q, c.obs.com) # ScaleV(d, AddV(MulLV(M.l, c.com), ScaleV(c.comden, M.t))) THEN "centre_of_mass_maps_through_M"
       \* axis-aligned bounds are the bounds of the moved points
       ELSE IF Has(c, "has_bounds") /\ n > 0 /\
               \E j \in 1..3 :
                   \/ \E k \in 1..n : img[k][j] < q * c.obs.bounds[1][j] \/ img[k][j] > q * c.obs.bounds[2][j]
                   \/ ~ \E k \in 1..n : img[k][j] = q * c.obs.bounds[1][j]
                   \/ ~ \E k \in 1..n : img[k][j] = q * c.obs.bounds[2][j]
            THEN "bounds_follow_points"
       \* s^2 = ScaleSq(l) / q^2
       ELSE IF c.obs.has_area /\ IsSimilarity(M.l) /\ c.obs.area2 * Pow(q, 2) # ScaleSq(M.l) * c.area2 * Pow(d, 2) THEN "area_scales_by_s2"
       \* inertia about the centre of mass under M = s.Q (Q orthogonal): s^5 Q I Q^T = |det M| . M I M^T
       \* = |det| l I l^T / q^5 ; the observed tensor is multiplied by iden
       ELSE IF c.obs.has_inertia /\ IsSimilarity(M.l) /\
               [r \in 1..3 |-> ScaleV(Pow(q, 5), c.obs.inertia[r])] #
               [r \in 1..3 |-> ScaleV(Abs(det) * iden, MulLL(MulLL(M.l, c.inertia), Transpose(M.l))[r])]
            THEN "inertia_tensor_law"
       \* a planar region under ANY affine map of the plane: area scales by |det2| = |det| / q (l[3][3] = q),
       \* true factor |det2| / q^2 ; observed 2 A' d^2
       ELSE IF Has(c, "has_parea") /\ c.obs.parea2 * Pow(q, 3) # Abs(det) * c.parea2 * Pow(d, 2) THEN "planar_area_scales_by_abs_det"
       \* the length of a planar curve under a similarity of the plane: (length')^2 = s^2 length^2
       ELSE IF Has(c, "has_plen") /\ IsSim2(M.l) /\ c.obs.plen2 * Pow(q, 2) # ColSq(M.l) * c.plen2 * Pow(d, 2) THEN "planar_length_scales_by_s"
       ELSE "ok"

Init == i = 1
Next == i < Len(Cases) /\ i' = i + 1
Report == LET c == Cases[i]  cl == IF c.exc # "" THEN "raised" ELSE Clause(c)
          IN IF cl # "ok" THEN PrintT(<<"REJECT", c.id, cl>>) ELSE TRUE

\* group laws of the reference itself on the recorded maps (sanity of the oracle)
RefLaws == LET c == Cases[i] IN
           Len(c.maps) >= 2 =>
              /\ Det(Total(c.maps, 2).l) = Det(c.maps[1].l) * Det(c.maps[2].l)
              /\ Total(c.maps, 2).den = FromRec(c.maps[1]).den * FromRec(c.maps[2]).den
              \* B(A(p)) with A(p) = Num(A, p) / A.den :  numerator B.l Num(A, p) + A.den B.t
              /\ \A k \in 1..Len(c.pts) :
                    Num(Total(c.maps, 2), c.pts[k]) =
                        AddV(MulLV(c.maps[2].l, Num(FromRec(c.maps[1]), c.pts[k])), ScaleV(FromRec(c.maps[1]).den, c.maps[2].t))
=============================================================================
