-------------------------- MODULE ExchangeRecords --------------------------
(***************************************************************************)
(* Batch validator for recorded export-then-load round trips (C08).        *)
(*                                                                         *)
(* The harness exports a geometry of a known class with one (format,       *)
(* option variant), loads the bytes back and records what it OBSERVED as   *)
(* booleans / counts (each one an equality between the loaded object and   *)
(* the object that was exported, after the format's quantisation where the *)
(* coordinates are not representable).  This module decides from the       *)
(* capability tables which of those equalities the property demands of     *)
(* that variant for that class, and names the first one that fails.        *)
(* Nothing is demanded that the tables do not say the format carries.      *)
(***************************************************************************)
EXTENDS ExchangeCaps, Json

Cases == ndJsonDeserialize("cases.ndjson")
VARIABLE i

InSeq(x, s) == \E k \in DOMAIN s : s[k] = x

MeshClause(c) ==
    LET cap == Cap(c.fmt)
        o   == c.obs
        g   == c.cls
    IN IF c.exc # "" THEN "round_trip_raises"
       ELSE IF ~c.src_ok THEN "ExportLeavesSourceUnchanged"
       ELSE IF o.nout # o.nin THEN "triangle_count"
       ELSE IF g.lossless /\ ~o.tris THEN "triangles_same_order"
       ELSE IF ~g.lossless /\ ~o.trisq THEN "coordinates_to_format_precision"
       ELSE IF ~g.empty /\ cap.vid /\ (cap.unref \/ ~g.unref) /\ ~o.vid THEN "vertex_identity"
       ELSE IF g.vc /\ cap.vc /\ ~o.vcrgb THEN "vertex_colours_carried"
       ELSE IF g.vc /\ cap.vc /\ cap.alpha /\ ~o.vca THEN "vertex_colour_alpha_carried"
       ELSE IF g.fc /\ cap.fc /\ ~o.fcrgb THEN "face_colours_carried"
       ELSE IF g.fc /\ cap.fc /\ cap.alpha /\ ~o.fca THEN "face_colour_alpha_carried"
       ELSE "ok"

CloudClause(c) ==
    LET cap == CloudCapTable[c.fmt]
        o   == c.obs
        g   == c.cls
    IN IF c.exc # "" THEN "round_trip_raises"
       ELSE IF ~c.src_ok THEN "ExportLeavesSourceUnchanged"
       ELSE IF o.nout # o.nin THEN "point_count"
       ELSE IF g.lossless /\ ~o.pts THEN "points_same_order"
       ELSE IF ~g.lossless /\ ~o.ptsq THEN "coordinates_to_format_precision"
       ELSE IF g.colors # "none" /\ cap.rgb /\ ~o.rgb THEN "colours_carried"
       ELSE IF g.colors = "rgba" /\ cap.alpha /\ ~o.alpha THEN "colour_alpha_carried"
       ELSE "ok"

\* Hausdorff distance between what was exported and what came back, in 1e-6 of the path's size
PathTol(f) == IF PathCapTable[f].prec = "t3" THEN 1000 ELSE 200
PathClause(c) ==
    LET cap == PathCapTable[c.fmt]
        o   == c.obs
        g   == c.cls
    IN IF g.dim \notin cap.dims THEN "not_applicable"
       ELSE IF c.exc # "" THEN "round_trip_raises"
       ELSE IF ~c.src_ok THEN "ExportLeavesSourceUnchanged"
       ELSE IF g.empty THEN (IF o.nout = 0 THEN "ok" ELSE "segments")
       ELSE IF PathSegsDemanded(c.fmt, g.ent) /\ ~o.segs THEN "segments"
       ELSE IF o.hd > PathTol(c.fmt) THEN "curve"
       ELSE IF cap.ents /\ ~o.types THEN "entities"
       ELSE "ok"

VoxelClause(c) ==
    LET cap == VoxelCapTable[c.fmt]
        o   == c.obs
    IN IF c.exc # "" THEN "round_trip_raises"
       ELSE IF ~c.src_ok THEN "ExportLeavesSourceUnchanged"
       ELSE IF cap.cells /\ ~o.cells THEN "cells"
       ELSE IF cap.placed /\ ~o.centres THEN "cell_centres"
       ELSE "ok"

SceneClause(c) ==
    LET cap == SceneCapTable[c.fmt]
        o   == c.obs
        g   == c.cls
    IN IF \E k \in DOMAIN g.kinds : g.kinds[k] \notin (cap.kinds \cup cap.tolerates) THEN "not_applicable"
       ELSE IF c.exc # "" THEN "round_trip_raises"
       ELSE IF ~c.src_ok THEN "ExportLeavesSourceUnchanged"
       ELSE IF o.nout # o.nin \/ ~o.bag THEN "instance_placement"
       ELSE IF cap.orient /\ ~o.bago THEN "triangle_vertex_order"
       ELSE IF InSeq("cloud", g.kinds) /\ "cloud" \in cap.kinds /\ ~o.cloud THEN "cloud_placement"
       ELSE IF InSeq("path", g.kinds) /\ "path" \in cap.kinds /\ ~o.path THEN "path_placement"
       ELSE "ok"

Clause(c) ==
    CASE c.kind = "mesh"  -> MeshClause(c)
      [] c.kind = "cloud" -> CloudClause(c)
      [] c.kind = "path"  -> PathClause(c)
      [] c.kind = "voxel" -> VoxelClause(c)
      [] c.kind = "scene" -> SceneClause(c)
      [] OTHER -> "unknown_kind"

\* the open known finding: the 3MF exporter numbers its objects by NAME, in one table for geometries and
\* nodes.  A geometry-bearing node directly under the base frame whose name differs from its geometry's
\* name is written as a reference to an object that is never defined, and a geometry-bearing node that
\* also has children gets the same id for its mesh object and for its component list.
Deviation(c) ==
    IF c.kind = "scene" /\ c.fmt = "3mf" /\ (c.cls.top_named_differently \/ c.cls.geometry_node_has_children)
    THEN "ThreeMFSceneRoundTrip" ELSE "none"

Init == i = 1
Next == i < Len(Cases) /\ i' = i + 1
Report == LET cl == Clause(Cases[i]) IN
            IF cl # "ok" THEN PrintT(<<"REJECT", Cases[i].id, cl, Deviation(Cases[i])>>) ELSE TRUE
=============================================================================
