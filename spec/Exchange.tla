------------------------------ MODULE Exchange ------------------------------
(***************************************************************************)
(* Export then load as a projection (property C08).                        *)
(*                                                                         *)
(* The abstract state of a mesh travelling through formats records which   *)
(* aspects of the ORIGINAL geometry it still carries:                      *)
(*   tris   the triangle sequence (same triangles, same order)  - always   *)
(*   vid    vertex identity: the same vertex array and face index array    *)
(*   fc     per-face colours           vc   per-vertex colours             *)
(*   alpha  the alpha channel of whichever colours are carried             *)
(* Each (format, option) pair has a capability record: what it stores.     *)
(* RoundTrip(fmt) is the projection onto what the format carries; chains   *)
(* of hops compose projections, so the state after f1;f2;f3 is the meet.   *)
(* "Colours ... where the format carries them" is read conservatively: a   *)
(* colour kind is demanded of a format only if its exporter writes it by   *)
(* design (binary PLY, dict: both kinds with alpha; ascii PLY, GLB: vertex *)
(* colours; OBJ: vertex RGB without alpha; STL, OFF, 3MF, DAE: none).       *)
(* Export never modifies the source (checked by the harness via hashes).   *)
(***************************************************************************)
EXTENDS Integers, Sequences, FiniteSets, TLC, Json

CONSTANTS Formats, MaxHops
VARIABLES chain, st
vars == <<chain, st>>

Cap(f) ==
    CASE f = "stl"       -> [vid |-> FALSE, fc |-> FALSE, vc |-> FALSE, alpha |-> FALSE]
      [] f = "stl_ascii" -> [vid |-> FALSE, fc |-> FALSE, vc |-> FALSE, alpha |-> FALSE]
      [] f = "dae"       -> [vid |-> FALSE, fc |-> FALSE, vc |-> FALSE, alpha |-> FALSE]
      [] f = "off"       -> [vid |-> TRUE,  fc |-> FALSE, vc |-> FALSE, alpha |-> FALSE]
      [] f = "3mf"       -> [vid |-> TRUE,  fc |-> FALSE, vc |-> FALSE, alpha |-> FALSE]
      [] f = "obj"       -> [vid |-> TRUE,  fc |-> FALSE, vc |-> TRUE,  alpha |-> FALSE]
      [] f = "glb"       -> [vid |-> TRUE,  fc |-> FALSE, vc |-> TRUE,  alpha |-> TRUE]
      [] f = "ply_ascii" -> [vid |-> TRUE,  fc |-> FALSE, vc |-> TRUE,  alpha |-> TRUE]
      [] f = "ply"       -> [vid |-> TRUE,  fc |-> TRUE,  vc |-> TRUE,  alpha |-> TRUE]
      [] f = "dict"      -> [vid |-> TRUE,  fc |-> TRUE,  vc |-> TRUE,  alpha |-> TRUE]
      [] f = "dict64"    -> [vid |-> TRUE,  fc |-> TRUE,  vc |-> TRUE,  alpha |-> TRUE]

Top == [vid |-> TRUE, fc |-> TRUE, vc |-> TRUE, alpha |-> TRUE]
Meet(a, b) == [vid |-> a.vid /\ b.vid, fc |-> a.fc /\ b.fc, vc |-> a.vc /\ b.vc, alpha |-> a.alpha /\ b.alpha]
\* vertex colours live on vertices: once vertex identity is gone they cannot be compared with the original
\* ones, so they only count while vid holds; likewise alpha only means something while a colour kind survives
Norm(s) == [vid |-> s.vid, fc |-> s.fc, vc |-> s.vc /\ s.vid, alpha |-> s.alpha /\ (s.fc \/ (s.vc /\ s.vid))]
RoundTrip(s, f) == Norm(Meet(s, Cap(f)))

Init == chain = <<>> /\ st = Top
Hop(f) == /\ Len(chain) < MaxHops
          /\ st' = RoundTrip(st, f)
          /\ chain' = Append(chain, [fmt |-> f, exp |-> RoundTrip(st, f)])
Next == \E f \in Formats : Hop(f)
Spec == Init /\ [][Next]_vars

\* projection algebra
Idempotent == \A f \in Formats : RoundTrip(RoundTrip(st, f), f) = RoundTrip(st, f)
Monotone == \A f \in Formats : LET r == RoundTrip(st, f) IN
              (r.vid => st.vid) /\ (r.fc => st.fc) /\ (r.vc => st.vc) /\ (r.alpha => st.alpha)
Commute == \A f, g \in Formats : RoundTrip(RoundTrip(st, f), g) = RoundTrip(RoundTrip(st, g), f)

Emit == (Len(chain) >= 1) => PrintT(ToJson(chain))
MeshFormats == {"stl", "stl_ascii", "dae", "off", "3mf", "obj", "glb", "ply_ascii", "ply", "dict", "dict64"}
=============================================================================
