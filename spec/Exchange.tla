------------------------------ MODULE Exchange ------------------------------
(***************************************************************************)
(* Export then load as a projection (property C08).                        *)
(*                                                                         *)
(* The abstract state of a mesh travelling through formats records which   *)
(* aspects of the ORIGINAL geometry it still carries:                      *)
(*   tris   the triangle sequence (same triangles, same order)  - always   *)
(*   vid    vertex identity: the same vertex array and face index array    *)
(*   fc     per-face colours                                               *)
(*   vc     per-vertex colours, read corner by corner of every triangle    *)
(*          (so they stay comparable when a format renumbers vertices)     *)
(*   alpha  the alpha channel of whichever colours are carried             *)
(*   unref  the mesh (still) has vertices that no face references: a       *)
(*          format that drops them keeps vertex identity only for meshes   *)
(*          that have none                                                 *)
(* Each (format, option variant) has a capability record (ExchangeCaps):   *)
(* what it stores.  RoundTrip(s, f) is the projection onto what f carries; *)
(* chains of hops compose projections, so the state after f1;f2;f3 is the  *)
(* meet.  Export never modifies the source (checked by the harness via     *)
(* hashes and array copies).                                               *)
(***************************************************************************)
EXTENDS ExchangeCaps, Json

CONSTANTS Formats, MaxHops
VARIABLES geom, chain, st
vars == <<geom, chain, st>>

GeomClasses == {"clean", "unref"}

Init == /\ geom \in GeomClasses
        /\ chain = <<>>
        /\ st = Top(geom = "unref")
Hop(f) == /\ Len(chain) < MaxHops
          /\ st' = RoundTrip(st, f)
          /\ chain' = Append(chain, [fmt |-> f, exp |-> RoundTrip(st, f)])
          /\ UNCHANGED geom
Next == \E f \in Formats : Hop(f)
Spec == Init /\ [][Next]_vars

\* projection algebra
Idempotent == \A f \in Formats : RoundTrip(RoundTrip(st, f), f) = RoundTrip(st, f)
Monotone == \A f \in Formats : LET r == RoundTrip(st, f) IN
              (r.vid => st.vid) /\ (r.fc => st.fc) /\ (r.vc => st.vc) /\ (r.alpha => st.alpha) /\ (r.unref => st.unref)
Commute == \A f, g \in Formats : RoundTrip(RoundTrip(st, f), g) = RoundTrip(RoundTrip(st, g), f)
\* the state after any chain is the meet of the capabilities on it (closed form of the fold)
MeetOfChain ==
    LET fs == {chain[i].fmt : i \in DOMAIN chain}
        u0 == geom = "unref"
        fc == \A f \in fs : Cap(f).fc
        vc == \A f \in fs : Cap(f).vc
    IN st = [vid   |-> (\A f \in fs : Cap(f).vid) /\ (~u0 \/ \A f \in fs : Cap(f).unref),
             fc    |-> fc,
             vc    |-> vc,
             alpha |-> (\A f \in fs : Cap(f).alpha) /\ (fc \/ vc),
             unref |-> u0 /\ \A f \in fs : Cap(f).unref /\ Cap(f).vid]

Emit == (Len(chain) >= 1) => PrintT(ToJson([geom |-> geom, hops |-> chain]))
EmitTables == (Len(chain) = 0 /\ geom = "clean") => PrintT(ToJson(Tables))
=============================================================================
