----------------------------- MODULE Grouping -----------------------------
(***************************************************************************)
(* Reference semantics of trimesh.grouping (property C06) and a batch      *)
(* validator of recorded calls.                                            *)
(*                                                                         *)
(* Inputs are arrays over a small abstract, totally ordered alphabet       *)
(* (0,1,2,...).  The implementation is called on order-preserving          *)
(* embeddings of that alphabet into int64 values around every bit-packing  *)
(* threshold, and into floats inside rounding cells; the partition of the  *)
(* rows is invariant under such an embedding, so the predicates below      *)
(* judge every embedding of the same abstract array.                       *)
(* Indices in recorded results are 0-based (numpy); sequences here are     *)
(* 1-based, hence the +1.                                                  *)
(***************************************************************************)
EXTENDS Integers, Sequences, FiniteSets, TLC, Json

Cases == ndJsonDeserialize("cases.ndjson")
VARIABLE i

Range(s) == {s[k] : k \in 1..Len(s)}
Idx(d) == 1..Len(d)
IsPerm01(s, n) == Len(s) = n /\ Range(s) = 0..(n - 1)          \* 0-based permutation
Distinct(s) == \A a, b \in 1..Len(s) : a # b => s[a] # s[b]
Increasing(s) == \A a \in 1..(Len(s) - 1) : s[a] < s[a + 1]
InRange0(s, n) == \A k \in 1..Len(s) : s[k] \in 0..(n - 1)

\* equivalence classes of positions holding equal elements (rows or scalars), 1-based
Class(d, k) == {j \in Idx(d) : d[j] = d[k]}
Classes(d) == {Class(d, k) : k \in Idx(d)}
First(S) == CHOOSE m \in S : \A x \in S : m <= x
Plus1(s) == {s[k] + 1 : k \in 1..Len(s)}

\* ------------------------------------------------------------ unique_rows
\* res = <<unique, inverse>>: unique = first occurrence of every distinct row,
\* data[unique][inverse] = data; keep_order: unique is increasing
OkUniqueRows(c) ==
    LET d == c.data  u == c.res[1]  inv == c.res[2]  n == Len(d) IN
    IF ~(InRange0(u, n) /\ Distinct(u)) THEN "unique_index_range"
    ELSE IF Plus1(u) # {First(C) : C \in Classes(d)} THEN "unique_is_first_occurrence_of_each_class"
    ELSE IF Len(inv) # n \/ ~InRange0(inv, Len(u)) THEN "inverse_shape"
    ELSE IF \E k \in Idx(d) : d[u[inv[k] + 1] + 1] # d[k] THEN "inverse_reconstructs"
    ELSE IF c.keep_order /\ ~Increasing(u) THEN "keep_order"
    ELSE "ok"

\* ------------------------------------------------------------- group_rows
\* require_count = -1 (None): groups partition all positions into the classes
\* require_count = k        : exactly the classes of size k, one row per group
\* a group / block is a class of a partition: it is never empty (the partition of an empty
\* input has no class at all); an empty index group is rejected by HasEmpty
NonEmpty(g) == SelectSeq(g, LAMBDA x : Len(x) > 0)
HasEmpty(g) == \E a \in 1..Len(g) : Len(g[a]) = 0
GroupsAsSets(g0) == LET g == NonEmpty(g0) IN {Plus1(g[k]) : k \in 1..Len(g)}
OkGroupRows(c) ==
    LET d == c.data  g == c.res  k == c.require_count IN
    IF HasEmpty(g) THEN "empty_group"
    ELSE IF \E a \in 1..Len(g) : ~Distinct(g[a]) THEN "group_repeats_index"
    ELSE IF Len(NonEmpty(g)) # Cardinality(GroupsAsSets(g)) THEN "duplicate_groups"
    ELSE IF k = -1 THEN
         IF GroupsAsSets(g) # Classes(d) THEN "groups_are_the_classes" ELSE "ok"
    ELSE IF GroupsAsSets(g) # {C \in Classes(d) : Cardinality(C) = k} THEN "groups_are_classes_of_required_count"
    ELSE "ok"

\* group(values, min_len, max_len): classes with min_len <= size <= max_len  (0 = not given)
OkGroup(c) ==
    LET d == c.data  g == c.res
        want == {C \in Classes(d) : (c.min_len = 0 \/ Cardinality(C) >= c.min_len)
                                   /\ (c.max_len = 0 \/ Cardinality(C) <= c.max_len)} IN
    IF HasEmpty(g) THEN "empty_group"
    ELSE IF \E a \in 1..Len(g) : ~Distinct(g[a]) THEN "group_repeats_index"
    ELSE IF Len(NonEmpty(g)) # Cardinality(GroupsAsSets(g)) THEN "duplicate_groups"
    ELSE IF GroupsAsSets(g) # want THEN "groups_are_the_length_filtered_classes"
    ELSE "ok"

\* --------------------------------------------------------- unique_ordered
\* res = <<index, inverse>> ; index = first occurrences in increasing order
OkUniqueOrdered(c) ==
    LET d == c.data  u == c.res[1]  inv == c.res[2]  n == Len(d) IN
    IF ~(InRange0(u, n) /\ Increasing(u)) THEN "index_increasing"
    ELSE IF Plus1(u) # {First(C) : C \in Classes(d)} THEN "index_is_first_occurrence"
    ELSE IF Len(inv) # n \/ ~InRange0(inv, Len(u)) THEN "inverse_shape"
    ELSE IF \E k \in Idx(d) : d[u[inv[k] + 1] + 1] # d[k] THEN "inverse_reconstructs"
    ELSE "ok"

\* -------------------------------------------------------- unique_bincount
\* data are non-negative ints used literally; res = <<unique, inverse, counts>>
OkBincount(c) ==
    LET d == c.data  u == c.res[1]  inv == c.res[2]  cnt == c.res[3] IN
    IF ~Increasing(u) \/ Range(u) # Range(d) THEN "unique_sorted_distinct_values"
    ELSE IF Len(inv) # Len(d) \/ \E k \in Idx(d) : u[inv[k] + 1] # d[k] THEN "inverse_reconstructs"
    ELSE IF Len(cnt) # Len(u) \/ \E k \in 1..Len(u) : cnt[k] # Cardinality({j \in Idx(d) : d[j] = u[k]}) THEN "counts"
    ELSE "ok"

\* ----------------------------------------------------------- boolean_rows
\* res = the selected rows (abstract symbols recovered by the harness through the inverse embedding)
OkBooleanRows(c) ==
    LET A == Range(c.a)  B == Range(c.b)
        want == IF c.op = "intersect" THEN A \cap B ELSE A \ B IN
    IF Range(c.res) # want THEN "row_set"
    ELSE IF ~Distinct(c.res) THEN "rows_unique"
    ELSE "ok"

\* ----------------------------------------------------------------- blocks
\* maximal runs of equal values; with wrap the array is circular
RunStart(d, k) == k = 1 \/ d[k] # d[k - 1]
RunOf(d, k) == LET s == CHOOSE a \in 1..k : (\A j \in a..k : d[j] = d[k]) /\ (a = 1 \/ d[a - 1] # d[k])
                   e == CHOOSE b \in k..Len(d) : (\A j \in k..b : d[j] = d[k]) /\ (b = Len(d) \/ d[b + 1] # d[k])
               IN s..e
LinearRuns(d) == {RunOf(d, k) : k \in Idx(d)}
AllEqual(d) == \A k \in Idx(d) : d[k] = d[1]
CircularRuns(d) ==
    IF Len(d) = 0 THEN {}
    ELSE IF AllEqual(d) \/ d[1] # d[Len(d)] THEN LinearRuns(d)
    ELSE LET a == RunOf(d, 1)  b == RunOf(d, Len(d)) IN (LinearRuns(d) \ {a, b}) \cup {a \cup b}
OkBlocks(c) ==
    LET d == c.data  g == c.res
        runs == IF c.wrap THEN CircularRuns(d) ELSE LinearRuns(d)
        want == {R \in runs : Cardinality(R) >= c.min_len /\ (c.max_len = 0 \/ Cardinality(R) <= c.max_len)
                              /\ (~c.only_nonzero \/ d[First(R)] # 0)} IN
    IF HasEmpty(g) THEN "empty_block"
    ELSE IF \E a \in 1..Len(g) : ~Distinct(g[a]) THEN "block_repeats_index"
    ELSE IF Len(NonEmpty(g)) # Cardinality(GroupsAsSets(g)) THEN "duplicate_blocks"
    ELSE IF GroupsAsSets(g) # want THEN "blocks_are_the_admissible_runs"
    ELSE "ok"

\* ------------------------------------------------------------- merge_runs
RECURSIVE Dedupe(_)
Dedupe(s) == IF Len(s) <= 1 THEN s
             ELSE IF s[1] = s[2] THEN Dedupe(Tail(s)) ELSE <<s[1]>> \o Dedupe(Tail(s))
OkMergeRuns(c) == IF c.res # Dedupe(c.data) THEN "consecutive_repeats_removed" ELSE "ok"

\* -------------------------------------------------------------- group_min
\* groups: label per element; data: abstract symbols; res: minimum per label, labels ascending
SetMin(S) == CHOOSE m \in S : \A x \in S : m <= x
RECURSIVE SortSet(_)
SortSet(S) == IF S = {} THEN <<>> ELSE <<SetMin(S)>> \o SortSet(S \ {SetMin(S)})
OkGroupMin(c) ==
    LET labels == SortSet(Range(c.groups))
        want == [k \in 1..Len(labels) |-> SetMin({c.data[j] : j \in {j \in Idx(c.data) : c.groups[j] = labels[k]}})] IN
    IF c.res # want THEN "minimum_per_group" ELSE "ok"

\* ---------------------------------------------------- unique_value_in_row
\* res: boolean matrix; each row has at most one TRUE, placed on a value occurring once in that
\* row, and exactly one whenever such a value exists
OkUniqueValueInRow(c) ==
    LET d == c.data  r == c.res IN
    IF Len(r) # Len(d) THEN "shape"
    ELSE IF \E k \in Idx(d) :
              LET singles == {j \in Idx(d[k]) : Cardinality({m \in Idx(d[k]) : d[k][m] = d[k][j]}) = 1}
                  marked == {j \in Idx(d[k]) : r[k][j]} IN
              ~(marked \subseteq singles /\ Cardinality(marked) <= 1 /\ (singles # {} => marked # {}))
         THEN "one_singleton_per_row"
    ELSE "ok"


\* ----------------------------------------------- options of the 1-D uniques
\* unique_ordered(data, return_index = c.ri, return_inverse = c.rv):
\* c.vals = returned values (abstract symbols recovered through the inverse embedding),
\* c.index / c.inverse = the optional results (<<>> when not requested), c.nret = number of
\* returned arrays (0: a bare array instead of a list)
FirstsInc(d) == SortSet({First(C) : C \in Classes(d)})          \* 1-based first occurrences, increasing
OkUniqueOrderedOpt(c) ==
    LET d == c.data  f == FirstsInc(d)  n == Len(d) IN
    IF c.nret # (IF c.ri \/ c.rv THEN 1 + (IF c.ri THEN 1 ELSE 0) + (IF c.rv THEN 1 ELSE 0) ELSE 0) THEN "number_of_results"
    ELSE IF c.vals # [k \in 1..Len(f) |-> d[f[k]]] THEN "values_in_order_of_first_occurrence"
    ELSE IF c.ri /\ c.index # [k \in 1..Len(f) |-> f[k] - 1] THEN "index_is_first_occurrence"
    ELSE IF c.rv /\ (Len(c.inverse) # n \/ ~InRange0(c.inverse, Len(f))) THEN "inverse_shape"
    ELSE IF c.rv /\ (\E k \in Idx(d) : c.vals[c.inverse[k] + 1] # d[k]) THEN "inverse_reconstructs"
    ELSE "ok"

\* unique_bincount(values, minlength, return_inverse = c.ri, return_counts = c.rc) on an
\* order-preserving embedding of the abstract symbols (any magnitude, sign and integer dtype):
\* c.u = sorted distinct values (as symbols), c.inv, c.cnt optional, c.nret as above
OkBincountOpt(c) ==
    LET d == c.data  u == c.u IN
    IF c.nret # (IF c.ri \/ c.rc THEN 1 + (IF c.ri THEN 1 ELSE 0) + (IF c.rc THEN 1 ELSE 0) ELSE 0) THEN "number_of_results"
    ELSE IF ~Increasing(u) \/ Range(u) # Range(d) THEN "unique_sorted_distinct_values"
    ELSE IF c.ri /\ (Len(c.inv) # Len(d) \/ ~InRange0(c.inv, Len(u))) THEN "inverse_shape"
    ELSE IF c.ri /\ (\E k \in Idx(d) : u[c.inv[k] + 1] # d[k]) THEN "inverse_reconstructs"
    ELSE IF c.rc /\ (Len(c.cnt) # Len(u) \/ \E k \in 1..Len(u) : c.cnt[k] # Cardinality({j \in Idx(d) : d[j] = u[k]}))
         THEN "counts"
    ELSE "ok"

\* unique_float(data, return_index, return_inverse, digits): like numpy.unique on the rounded
\* values: res = <<index, inverse>>, index = first occurrence of every class ordered by value
OkUniqueFloat(c) ==
    LET d == c.data  u == c.res[1]  inv == c.res[2]  n == Len(d) IN
    IF ~InRange0(u, n) THEN "index_range"
    ELSE IF Plus1(u) # {First(C) : C \in Classes(d)} \/ Len(u) # Cardinality(Classes(d)) THEN "index_is_first_occurrence"
    ELSE IF ~Increasing([k \in 1..Len(u) |-> d[u[k] + 1]]) THEN "sorted_by_value"
    ELSE IF Len(inv) # n \/ ~InRange0(inv, Len(u)) THEN "inverse_shape"
    ELSE IF \E k \in Idx(d) : d[u[inv[k] + 1] + 1] # d[k] THEN "inverse_reconstructs"
    ELSE "ok"

\* hashable_rows(data, allow_int): c.eq[a][b] = (hash of row a = hash of row b)
OkHashableRows(c) ==
    LET d == c.data  n == Len(d) IN
    IF Len(c.eq) # n THEN "one_hash_per_row"
    ELSE IF \E a, b \in Idx(d) : c.eq[a][b] # (d[a] = d[b]) THEN "hash_equality_is_row_equality"
    ELSE "ok"

\* unique_value_in_row(data, unique = c.uniq): only the listed values are looked for
OkUniqueValueInRowU(c) ==
    LET d == c.data  r == c.res  U == Range(c.uniq) IN
    IF Len(r) # Len(d) THEN "shape"
    ELSE IF \E k \in Idx(d) :
              LET singles == {j \in Idx(d[k]) : d[k][j] \in U /\ Cardinality({m \in Idx(d[k]) : d[k][m] = d[k][j]}) = 1}
                  marked == {j \in Idx(d[k]) : r[k][j]} IN
              ~(Len(r[k]) = Len(d[k]) /\ marked \subseteq singles /\ Cardinality(marked) <= 1 /\ (singles # {} => marked # {}))
         THEN "one_singleton_per_row"
    ELSE "ok"

\* purity / repeatability (records of the extended families carry the two flags): the call must
\* leave its input unchanged and a second identical call must return the same result
Has(c, f) == f \in DOMAIN c
OkHistory(c) ==
    IF Has(c, "pure") /\ ~c.pure THEN "input_mutated"
    ELSE IF Has(c, "again") /\ ~c.again THEN "second_call_differs"
    ELSE "ok"

Clause(c) ==
    CASE c.fn = "unique_rows" -> OkUniqueRows(c)
      [] c.fn = "group_rows" -> OkGroupRows(c)
      [] c.fn = "group" -> OkGroup(c)
      [] c.fn = "unique_ordered" -> OkUniqueOrdered(c)
      [] c.fn = "unique_bincount" -> OkBincount(c)
      [] c.fn = "boolean_rows" -> OkBooleanRows(c)
      [] c.fn = "blocks" -> OkBlocks(c)
      [] c.fn = "merge_runs" -> OkMergeRuns(c)
      [] c.fn = "group_min" -> OkGroupMin(c)
      [] c.fn = "unique_value_in_row" -> OkUniqueValueInRow(c)
      [] c.fn = "unique_ordered_opt" -> OkUniqueOrderedOpt(c)
      [] c.fn = "unique_bincount_opt" -> OkBincountOpt(c)
      [] c.fn = "unique_float" -> OkUniqueFloat(c)
      [] c.fn = "hashable_rows" -> OkHashableRows(c)
      [] c.fn = "unique_value_in_row_u" -> OkUniqueValueInRowU(c)
      [] OTHER -> "unknown_function"

Init == i = 1
Next == i < Len(Cases) /\ i' = i + 1
Report == LET c == Cases[i]
              cl == IF c.exc # "" THEN "raised_" \o c.exc
                    ELSE IF OkHistory(c) # "ok" THEN OkHistory(c) ELSE Clause(c)
          IN IF cl # "ok" THEN PrintT(<<"REJECT", c.id, cl>>) ELSE TRUE

\* internal sanity of the reference (checked on the recorded inputs themselves)
RefSane == LET c == Cases[i] IN
           (c.fn \in {"unique_rows", "group_rows", "group", "hashable_rows", "unique_float"}) =>
               /\ UNION Classes(c.data) = Idx(c.data)
               /\ \A A, B \in Classes(c.data) : A = B \/ A \cap B = {}
=============================================================================
