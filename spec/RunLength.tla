----------------------------- MODULE RunLength -----------------------------
(***************************************************************************)
(* Reference semantics for property C13 (voxel encodings interchangeable,  *)
(* run-length codecs lossless) and a batch validator of recorded calls.    *)
(*                                                                         *)
(* Part 1  trimesh.voxel.runlength: every RLE sequence                     *)
(*         (value,count,value,count,...) and every BRLE sequence           *)
(*         (counts of False/True alternating, starting with False) denotes *)
(*         a dense sequence.  Every function of the module is specified   *)
(*         by its effect on the denotation.  Where an encoding is not      *)
(*         unique ANY well-formed encoding with the right denotation is    *)
(*         accepted.  Denotations are compared in canonical run form       *)
(*         (non-empty maximal runs) so that runs of 255, 256, 65536, ...   *)
(*         elements cost nothing; Expand gives the dense sequence itself   *)
(*         and RefSane ties the two together on the recorded inputs.       *)
(* Part 2  trimesh.voxel.encoding: expression trees  base encoding +       *)
(*         chain of lazy views (flip, transpose, reshape, flat).  The      *)
(*         denotation of a tree is a dense N-d array (row-major flat       *)
(*         sequence + shape); every read of the Encoding API must equal    *)
(*         the same read of the denotation.                                *)
(*         Part 2b judges 1-D run-length encodings built on stored data of *)
(*         any integer dtype at run level.                                 *)
(* Part 3  VoxelGrid: index <-> point maps, volume, binvox round trip.     *)
(* Part 4  the batch validator (named clauses).                            *)
(*                                                                         *)
(* Recorded numpy indices are 0-based; TLA+ sequences are 1-based.         *)
(* Booleans are recorded as 0/1.  A count maximum of 0 means "unbounded"   *)
(* (int64 counts).                                                         *)
(***************************************************************************)
EXTENDS Integers, Sequences, FiniteSets, TLC, Json

Cases == ndJsonDeserialize("cases.ndjson")
VARIABLE i

Has(r, f) == f \in DOMAIN r
Min2(a, b) == IF a <= b THEN a ELSE b
SetMin(S) == CHOOSE m \in S : \A x \in S : m <= x
SetMax(S) == CHOOSE m \in S : \A x \in S : x <= m
Abs(x) == IF x < 0 THEN -x ELSE x
Range(s) == {s[k] : k \in 1..Len(s)}
Distinct(s) == \A a, b \in 1..Len(s) : a # b => s[a] # s[b]
Rev(s) == [k \in 1..Len(s) |-> s[Len(s) + 1 - k]]
RECURSIVE SumSeq(_)
SumSeq(s) == IF Len(s) = 0 THEN 0 ELSE s[1] + SumSeq(Tail(s))

(***************************************************************************)
(* Part 1.  Run-length codecs                                              *)
(***************************************************************************)
\* a run list is a sequence of pairs <<value, count>>
RlePairs(r) == [k \in 1..(Len(r) \div 2) |-> <<r[2 * k - 1], r[2 * k]>>]
BrlePairs(b) == [k \in 1..Len(b) |-> <<(k - 1) % 2, b[k]>>]
DensePairs(d) == [k \in 1..Len(d) |-> <<d[k], 1>>]

\* the dense sequence denoted by a run list
Rep(v, n) == [k \in 1..n |-> v]
RECURSIVE Expand(_)
Expand(rs) == IF Len(rs) = 0 THEN <<>> ELSE Rep(rs[1][1], rs[1][2]) \o Expand(Tail(rs))
RleDense(r) == Expand(RlePairs(r))
BrleDense(b) == Expand(BrlePairs(b))

\* canonical form: no empty run, neighbouring runs carry different values.
\* Two run lists denote the same dense sequence iff their canonical forms are equal.
RECURSIVE Canon(_)
Canon(rs) ==
    IF Len(rs) = 0 THEN <<>>
    ELSE IF rs[1][2] = 0 THEN Canon(Tail(rs))
    ELSE LET rest == Canon(Tail(rs)) IN
         IF Len(rest) > 0 /\ rest[1][1] = rs[1][1]
         THEN <<<<rs[1][1], rs[1][2] + rest[1][2]>>>> \o Tail(rest)
         ELSE <<<<rs[1][1], rs[1][2]>>>> \o rest
RleRuns(r) == Canon(RlePairs(r))
BrleRuns(b) == Canon(BrlePairs(b))
DenseRuns(d) == Canon(DensePairs(d))

\* well-formedness with respect to a count maximum (0 = unbounded)
CountOk(x, mx) == x >= 0 /\ (mx = 0 \/ x <= mx)
RleWF(r, mx) == Len(r) % 2 = 0 /\ \A k \in 1..(Len(r) \div 2) : CountOk(r[2 * k], mx)
BrleWF(b, mx) == \A k \in 1..Len(b) : CountOk(b[k], mx)

\* operations on canonical run lists = the same numpy operation on the dense sequence
RECURSIVE Total(_)
Total(cr) == IF Len(cr) = 0 THEN 0 ELSE cr[1][2] + Total(Tail(cr))
RECURSIVE At(_, _)                       \* dense[k], k 0-based and < Total
At(cr, k) == IF k < cr[1][2] THEN cr[1][1] ELSE At(Tail(cr), k - cr[1][2])
MapVals(cr, F(_)) == [k \in 1..Len(cr) |-> <<F(cr[k][1]), cr[k][2]>>]
NotRuns(cr) == MapVals(cr, LAMBDA v : 1 - v)
AllZero(cr) == \A k \in 1..Len(cr) : cr[k][1] = 0
LeadZeros(cr) == IF Len(cr) > 0 /\ cr[1][1] = 0 THEN cr[1][2] ELSE 0
TrailZeros(cr) == IF Len(cr) > 0 /\ cr[Len(cr)][1] = 0 THEN cr[Len(cr)][2] ELSE 0
StripRuns(cr) ==
    LET a == IF Len(cr) > 0 /\ cr[1][1] = 0 THEN 2 ELSE 1
        b == IF Len(cr) > 0 /\ cr[Len(cr)][1] = 0 THEN Len(cr) - 1 ELSE Len(cr)
    IN [k \in 1..(b - a + 1) |-> cr[a + k - 1]]
\* positions and values of the non-zero elements as <<start, count, value>> per non-zero run
RECURSIVE SparseOf(_, _)
SparseOf(cr, off) ==
    IF Len(cr) = 0 THEN <<>>
    ELSE (IF cr[1][1] # 0 THEN <<<<off, cr[1][2], cr[1][1]>>>> ELSE <<>>)
         \o SparseOf(Tail(cr), off + cr[1][2])
\* dense[mask] where data and mask are both given as run lists of the same total length
RECURSIVE MaskRuns(_, _)
MaskRuns(a, m) ==
    IF Len(a) = 0 \/ Len(m) = 0 THEN <<>>
    ELSE LET k == Min2(a[1][2], m[1][2])
             a2 == IF a[1][2] = k THEN Tail(a) ELSE <<<<a[1][1], a[1][2] - k>>>> \o Tail(a)
             m2 == IF m[1][2] = k THEN Tail(m) ELSE <<<<m[1][1], m[1][2] - k>>>> \o Tail(m)
         IN (IF m[1][1] # 0 THEN <<<<a[1][1], k>>>> ELSE <<>>) \o MaskRuns(a2, m2)

\* recorded dense values: literal sequence ("lit"/"d"/"m") or a run description ("runs"/"dr"/"mr")
InRuns(c) == IF Has(c, "d") THEN DenseRuns(c.d) ELSE Canon(c.dr)
MaskIn(c) == IF Has(c, "m") THEN DenseRuns(c.m) ELSE Canon(c.mr)
ProjRuns(p) == IF Has(p, "lit") THEN DenseRuns(p.lit) ELSE Canon(p.runs)
Bin(cr) == \A k \in 1..Len(cr) : cr[k][1] \in {0, 1}

\* ---- one clause per function --------------------------------------------------
OkDenseToRle(c) ==
    IF ~RleWF(c.res, c.max) THEN "rle_counts_within_dtype_max"
    ELSE IF RleRuns(c.res) # InRuns(c) THEN "rle_denotes_input" ELSE "ok"
OkDenseToBrle(c) ==
    IF ~BrleWF(c.res, c.max) THEN "brle_counts_within_dtype_max"
    ELSE IF BrleRuns(c.res) # InRuns(c) THEN "brle_denotes_input" ELSE "ok"
OkRleToDense(c) ==
    IF ProjRuns(c.res) # RleRuns(c.e) THEN "dense_is_denotation_of_rle"
    ELSE IF c.res.n # Total(RleRuns(c.e)) THEN "dense_length" ELSE "ok"
OkBrleToDense(c) ==
    LET want == IF Has(c, "vals") THEN Canon(MapVals(BrleRuns(c.e), LAMBDA v : c.vals[v + 1]))
                ELSE BrleRuns(c.e) IN
    IF ProjRuns(c.res) # want
    THEN (IF Has(c, "vals") THEN "dense_uses_substitute_values" ELSE "dense_is_denotation_of_brle")
    ELSE IF c.res.n # Total(want) THEN "dense_length" ELSE "ok"
OkRleToBrle(c) ==
    IF ~BrleWF(c.res, c.max) THEN "brle_counts_within_dtype_max"
    ELSE IF BrleRuns(c.res) # RleRuns(c.e) THEN "brle_denotes_same_as_rle" ELSE "ok"
OkBrleToRle(c) ==
    IF ~RleWF(c.res, c.max) THEN "rle_counts_within_dtype_max"
    ELSE IF RleRuns(c.res) # BrleRuns(c.e) THEN "rle_denotes_same_as_brle" ELSE "ok"
OkRleToRle(c) ==       \* rle_to_rle, merge_rle_lengths, split_long_rle_lengths
    IF ~RleWF(c.res, c.max) THEN "rle_counts_within_dtype_max"
    ELSE IF RleRuns(c.res) # RleRuns(c.e) THEN "rle_denotation_preserved" ELSE "ok"
OkBrleToBrle(c) ==     \* brle_to_brle, merge_brle_lengths, split_long_brle_lengths
    IF ~BrleWF(c.res, c.max) THEN "brle_counts_within_dtype_max"
    ELSE IF BrleRuns(c.res) # BrleRuns(c.e) THEN "brle_denotation_preserved" ELSE "ok"
OkRleLength(c) == IF c.res # Total(RleRuns(c.e)) THEN "length_of_denotation" ELSE "ok"
OkBrleLength(c) == IF c.res # Total(BrleRuns(c.e)) THEN "length_of_denotation" ELSE "ok"
OkBrleNot(c) ==
    IF ~BrleWF(c.res, 0) THEN "brle_counts_nonnegative"
    ELSE IF BrleRuns(c.res) # Canon(NotRuns(BrleRuns(c.e))) THEN "denotes_elementwise_not" ELSE "ok"
OkRleReverse(c) ==
    IF ~RleWF(c.res, 0) THEN "rle_well_formed"
    ELSE IF RleRuns(c.res) # Rev(RleRuns(c.e)) THEN "denotes_reversed_sequence" ELSE "ok"
OkBrleReverse(c) ==
    IF ~BrleWF(c.res, 0) THEN "brle_counts_nonnegative"
    ELSE IF BrleRuns(c.res) # Rev(BrleRuns(c.e)) THEN "denotes_reversed_sequence" ELSE "ok"
\* strip: res = [enc, start, end].  On all-zero data only "nothing non-zero survives" is required
\* (what the padding of an all-zero sequence should be is not stated anywhere).
OkStrip(got, cr, res) ==
    IF AllZero(cr) THEN (IF ~AllZero(got) THEN "stripped_all_zero_input_keeps_nonzero" ELSE "ok")
    ELSE IF got # StripRuns(cr) THEN "stripped_denotes_input_without_outer_zeros"
    ELSE IF res.start # LeadZeros(cr) THEN "padding_start_counts_leading_zeros"
    ELSE IF res.end # TrailZeros(cr) THEN "padding_end_counts_trailing_zeros" ELSE "ok"
OkRleStrip(c) == IF ~RleWF(c.res.enc, 0) THEN "rle_well_formed" ELSE OkStrip(RleRuns(c.res.enc), RleRuns(c.e), c.res)
OkBrleStrip(c) == IF ~BrleWF(c.res.enc, 0) THEN "brle_counts_nonnegative" ELSE OkStrip(BrleRuns(c.res.enc), BrleRuns(c.e), c.res)
\* to_sparse: res.tri = the returned (index, value) list compressed (losslessly, order kept) into
\* maximal <<start, count, value>> stretches of consecutive indices with one value
OkRleToSparse(c) ==
    IF c.res.ni # c.res.nv THEN "indices_and_values_same_length"
    ELSE IF c.res.tri # SparseOf(RleRuns(c.e), 0) THEN "indices_values_of_nonzero_elements" ELSE "ok"
OkBrleToSparse(c) ==
    IF c.res.tri # SparseOf(BrleRuns(c.e), 0) THEN "indices_of_true_elements" ELSE "ok"
OkGather(c, cr) ==
    IF Len(c.res) # Len(c.idx) THEN "one_value_per_index"
    ELSE IF \E k \in 1..Len(c.idx) : c.res[k] # At(cr, c.idx[k]) THEN "gather_equals_dense_at_indices" ELSE "ok"
OkMask(c, cr) ==
    IF ProjRuns(c.res) # Canon(MaskRuns(cr, MaskIn(c))) THEN "mask_equals_dense_under_mask" ELSE "ok"

\* a gather with an index >= length must raise IndexError (numpy does)
IsGather(c) == c.fn \in {"rle_gather_1d", "brle_gather_1d", "sorted_rle_gather_1d", "sorted_brle_gather_1d"}
EncRuns(c) == IF c.fn \in {"rle_gather_1d", "sorted_rle_gather_1d", "rle_mask"} THEN RleRuns(c.e) ELSE BrleRuns(c.e)
OutOfRange(c) == IsGather(c) /\ \E k \in 1..Len(c.idx) : c.idx[k] >= Total(EncRuns(c))
\* a negative index either raises or is answered as numpy answers it (counted from the end); an index
\* below -length must raise
NegIndex(c) == IsGather(c) /\ \E k \in 1..Len(c.idx) : c.idx[k] < 0
NegGatherClause(c) ==
    LET cr == EncRuns(c)
        n == Total(cr)
        W(k) == IF k < 0 THEN k + n ELSE k
    IN IF c.exc # "" THEN "ok"
       ELSE IF \E k \in 1..Len(c.idx) : W(c.idx[k]) < 0 \/ W(c.idx[k]) >= n THEN "out_of_range_index_raises_IndexError"
       ELSE IF Len(c.res) # Len(c.idx) \/ \E k \in 1..Len(c.idx) : c.res[k] # At(cr, W(c.idx[k]))
            THEN "negative_index_wraps_like_numpy_or_raises" ELSE "ok"

(***************************************************************************)
(* Part 2.  Encoding expression trees                                      *)
(***************************************************************************)
\* N-d array = [flat |-> row-major sequence, shape |-> sequence]; index tuples are 0-based
RECURSIVE Prod(_)
Prod(s) == IF Len(s) = 0 THEN 1 ELSE s[1] * Prod(Tail(s))
RECURSIVE Ravel(_, _)
Ravel(ix, s) == IF Len(s) = 0 THEN 0 ELSE ix[1] * Prod(Tail(s)) + Ravel(Tail(ix), Tail(s))
RECURSIVE Unravel(_, _)
Unravel(k, s) == IF Len(s) = 0 THEN <<>>
                 ELSE LET p == Prod(Tail(s)) IN <<k \div p>> \o Unravel(k % p, Tail(s))
Arr(flat, shape) == [flat |-> flat, shape |-> shape]
AtIx(A, ix) == A.flat[Ravel(ix, A.shape) + 1]
InShape(ix, s) == Len(ix) = Len(s) /\ \A a \in 1..Len(s) : ix[a] >= 0 /\ ix[a] < s[a]
Build(shape, F(_)) == Arr([k \in 1..Prod(shape) |-> F(Unravel(k - 1, shape))], shape)
AllIx(s) == {Unravel(k - 1, s) : k \in 1..Prod(s)}
NormAxis(a, nd) == IF a < 0 THEN a + nd ELSE a

Flip(A, axes) ==                          \* np.flip over a set of axes
    LET nd == Len(A.shape)
        ax == {NormAxis(axes[k], nd) + 1 : k \in 1..Len(axes)}
    IN Build(A.shape, LAMBDA j : AtIx(A, [a \in 1..nd |-> IF a \in ax THEN A.shape[a] - 1 - j[a] ELSE j[a]]))
Transpose(A, perm) ==                     \* np.transpose: new axis a is old axis perm[a]
    LET nd == Len(A.shape)
        p == [a \in 1..nd |-> NormAxis(perm[a], nd) + 1]
        shp == [a \in 1..nd |-> A.shape[p[a]]]
    IN Build(shp, LAMBDA j : AtIx(A, [b \in 1..nd |-> j[CHOOSE a \in 1..nd : p[a] = b]]))
Reshape(A, shp) ==                        \* np.reshape (row-major), one -1 allowed
    LET known == Prod(SelectSeq(shp, LAMBDA x : x # -1))
        s2 == [a \in 1..Len(shp) |-> IF shp[a] = -1 THEN Len(A.flat) \div known ELSE shp[a]]
    IN Arr(A.flat, s2)
Flat(A) == Arr(A.flat, <<Len(A.flat)>>)
ApplyOp(A, o) ==
    CASE o.op = "flip" -> Flip(A, o.axes)
      [] o.op = "transpose" -> Transpose(A, o.perm)
      [] o.op = "reshape" -> Reshape(A, o.shape)
      [] o.op = "flat" -> Flat(A)
RECURSIVE DenChain(_, _, _)
DenChain(A, ch, k) == IF k > Len(ch) THEN A ELSE DenChain(ApplyOp(A, ch[k]), ch, k + 1)
\* denotation of the tree: base encodings of every kind denote the recorded dense data
Den(c) == DenChain(Arr(c.data, c.shape), c.chain, 1)

FilledIx(A) == {ix \in AllIx(A.shape) : AtIx(A, ix) # 0}
IsEmpty(A) == \A k \in 1..Len(A.flat) : A.flat[k] = 0
\* bounding box of the non-zero elements (A not empty)
Lo(A) == [a \in 1..Len(A.shape) |-> SetMin({ix[a] : ix \in FilledIx(A)})]
Hi(A) == [a \in 1..Len(A.shape) |-> SetMax({ix[a] : ix \in FilledIx(A)}) + 1]
Stripped(A) == LET lo == Lo(A) hi == Hi(A) nd == Len(A.shape) IN
               Build([a \in 1..nd |-> hi[a] - lo[a]], LAMBDA j : AtIx(A, [a \in 1..nd |-> j[a] + lo[a]]))
Padding(A) == LET lo == Lo(A) hi == Hi(A) IN [a \in 1..Len(A.shape) |-> <<lo[a], A.shape[a] - hi[a]>>]
\* A[mask] in row-major order
RECURSIVE MaskSeq(_, _)
MaskSeq(f, m) == IF Len(f) = 0 THEN <<>>
                 ELSE (IF m[1] # 0 THEN <<f[1]>> ELSE <<>>) \o MaskSeq(Tail(f), Tail(m))

\* one clause per read; q is the recorded read, D the denotation
WrapIx(ix, s) == [a \in 1..Len(ix) |-> IF ix[a] < 0 THEN ix[a] + s[a] ELSE ix[a]]
ReadClause(D, q) ==
    IF q.r = "gather_oob" THEN
         \* some row lies outside the array (an index >= the length of its axis, or < -length): the dense
         \* numpy array raises, so must every encoding (any exception is accepted)
         (IF \A k \in 1..Len(q.arg) : InShape(WrapIx(q.arg[k], D.shape), D.shape) THEN "harness_index_is_in_range"
          ELSE IF q.exc = "" THEN "out_of_range_index_must_raise" ELSE "ok")
    ELSE IF q.r = "gather_neg" THEN
         \* negative indices in range: raise, or answer as numpy does (counted from the end)
         (IF q.exc # "" THEN "ok"
          ELSE IF Len(q.v) # Len(q.arg) THEN "gather_one_value_per_index"
          ELSE IF \E k \in 1..Len(q.arg) : q.v[k] # AtIx(D, WrapIx(q.arg[k], D.shape))
               THEN "negative_index_wraps_like_numpy_or_raises" ELSE "ok")
    ELSE IF q.exc # "" THEN "raised_" \o q.exc
    ELSE CASE q.r = "dense" ->
                IF q.shape # D.shape THEN "dense_shape"
                ELSE IF q.flat # D.flat THEN "dense_values" ELSE "ok"
           [] q.r = "shape" -> IF q.v # D.shape THEN "shape" ELSE "ok"
           [] q.r = "ndims" -> IF q.v # Len(D.shape) THEN "ndims" ELSE "ok"
           [] q.r = "size" -> IF q.v # Len(D.flat) THEN "size" ELSE "ok"
           [] q.r = "sum" -> IF q.v # SumSeq(D.flat) THEN "sum" ELSE "ok"
           [] q.r = "is_empty" -> IF (q.v = 1) # IsEmpty(D) THEN "is_empty" ELSE "ok"
           [] q.r = "sparse_indices" ->
                \* order is not part of the contract; explicit zero entries are tolerated
                IF \E k \in 1..Len(q.idx) : ~InShape(q.idx[k], D.shape) THEN "sparse_index_in_range"
                ELSE IF ~Distinct(q.idx) THEN "sparse_indices_distinct"
                ELSE IF ~(FilledIx(D) \subseteq Range(q.idx)) THEN "sparse_indices_cover_filled"
                ELSE IF \E k \in 1..Len(q.idx) : AtIx(D, q.idx[k]) = 0 THEN "sparse_indices_only_filled"
                ELSE "ok"
           [] q.r = "sparse_values" ->
                \* vshape = numpy shape of the returned values: one value per filled cell, as a bag
                IF Len(q.vshape) # 1 THEN "sparse_values_rank_1"
                ELSE IF \E x \in Range(q.v) \cup Range(D.flat) : x # 0 /\
                          Cardinality({k \in 1..Len(q.v) : q.v[k] = x}) # Cardinality({k \in 1..Len(D.flat) : D.flat[k] = x})
                THEN "sparse_values_are_the_nonzero_values" ELSE "ok"
           [] q.r = "sparse_pairs" ->
                \* sparse_indices[k] and sparse_values[k] belong together (judged only when the
                \* indices themselves are acceptable; otherwise the sparse_indices read reports)
                IF Len(q.idx) # Len(q.v) THEN "sparse_values_one_per_index"
                ELSE IF (\A k \in 1..Len(q.idx) : InShape(q.idx[k], D.shape)) /\ Distinct(q.idx)
                        /\ \E k \in 1..Len(q.idx) : q.v[k] # AtIx(D, q.idx[k])
                THEN "sparse_values_aligned_with_indices" ELSE "ok"
           [] q.r \in {"gather_nd", "gather"} ->
                IF Len(q.v) # Len(q.arg) THEN "gather_one_value_per_index"
                ELSE IF \E k \in 1..Len(q.arg) : q.v[k] # AtIx(D, q.arg[k]) THEN "gather_equals_dense_at_indices"
                ELSE "ok"
           [] q.r = "get_value" ->
                IF Len(q.v) # Len(q.arg) THEN "get_value_scalar"
                ELSE IF \E k \in 1..Len(q.arg) : q.v[k] # AtIx(D, q.arg[k]) THEN "get_value_equals_dense_at_index"
                ELSE "ok"
           [] q.r = "mask" ->
                IF q.v # MaskSeq(D.flat, q.arg) THEN "mask_equals_dense_under_mask" ELSE "ok"
           [] q.r = "stripped" ->
                IF IsEmpty(D) THEN
                     (IF Prod(q.shape) # 0 THEN "stripped_of_empty_is_empty"
                      ELSE IF Len(q.pad) # Len(D.shape)
                              \/ \E a \in 1..Len(D.shape) : q.pad[a][1] + q.pad[a][2] # D.shape[a]
                      THEN "stripped_padding_of_empty_covers_axis" ELSE "ok")
                ELSE IF q.shape # Stripped(D).shape THEN "stripped_shape_is_bounding_box"
                ELSE IF q.flat # Stripped(D).flat THEN "stripped_values"
                ELSE IF q.pad # Padding(D) THEN "stripped_padding" ELSE "ok"
           [] q.r = "rld" ->
                IF ~RleWF(q.v, q.max) THEN "rle_counts_within_dtype_max"
                ELSE IF RleRuns(q.v) # DenseRuns(D.flat) THEN "run_length_data_denotes_dense" ELSE "ok"
           [] q.r = "brld" ->
                IF ~BrleWF(q.v, q.max) THEN "brle_counts_within_dtype_max"
                ELSE IF BrleRuns(q.v) # DenseRuns(D.flat) THEN "binary_run_length_data_denotes_dense" ELSE "ok"
           [] OTHER -> "unknown_read"

(***************************************************************************)
(* Part 2b.  One-dimensional run-length encodings at run level             *)
(* RunLengthEncoding / BinaryRunLengthEncoding objects built directly on   *)
(* stored run-length data `e` (of any integer dtype, runs of any length)   *)
(* and viewed through flip / reshape / flat.  The denotation is the run    *)
(* list of `e`; every read is judged on runs, so encodings whose merged    *)
(* runs or total length exceed the stored dtype cost nothing.              *)
(***************************************************************************)
BaseRuns(c) == IF c.kind = "rle" THEN RleRuns(c.e) ELSE BrleRuns(c.e)
\* <<runs, shape>> after the views: flip(0) of a 1-D array reverses it, reshape / flat keep the
\* row-major order
RECURSIVE View1(_, _, _, _)
View1(runs, shape, v, k) ==
    IF k > Len(v) THEN <<runs, shape>>
    ELSE IF v[k].op = "flip" THEN View1(Rev(runs), shape, v, k + 1)
    ELSE IF v[k].op = "reshape" THEN View1(runs, v[k].shape, v, k + 1)
    ELSE View1(runs, <<Total(runs)>>, v, k + 1)
RECURSIVE SumRuns(_)
SumRuns(cr) == IF Len(cr) = 0 THEN 0 ELSE cr[1][1] * cr[1][2] + SumRuns(Tail(cr))
Read1Clause(runs, shape, q) ==
    IF q.exc # "" THEN "raised_" \o q.exc
    ELSE CASE q.r = "dense" ->
                IF q.shape # shape THEN "dense_shape"
                ELSE IF ProjRuns(q.res) # runs \/ q.res.n # Total(runs) THEN "dense_values" ELSE "ok"
           [] q.r = "shape" -> IF q.v # shape THEN "shape" ELSE "ok"
           [] q.r = "size" -> IF q.v # Total(runs) THEN "size" ELSE "ok"
           [] q.r = "sum" -> IF q.v # SumRuns(runs) THEN "sum" ELSE "ok"
           [] q.r = "is_empty" -> IF (q.v = 1) # AllZero(runs) THEN "is_empty" ELSE "ok"
           [] q.r = "sparse" ->          \* 1-D only; (index, value) list compressed as in rle_to_sparse
                IF q.ni # q.nv THEN "sparse_values_one_per_index"
                ELSE IF q.tri # SparseOf(runs, 0) THEN "sparse_indices_values_of_nonzero_elements" ELSE "ok"
           [] q.r \in {"gather_nd", "gather", "get_value"} ->
                IF Len(q.v) # Len(q.arg) THEN "gather_one_value_per_index"
                ELSE IF \E k \in 1..Len(q.arg) : q.v[k] # At(runs, Ravel(q.arg[k], shape))
                THEN "gather_equals_dense_at_indices" ELSE "ok"
           [] q.r = "mask" ->
                IF ProjRuns(q.res) # Canon(MaskRuns(runs, Canon(q.mr))) THEN "mask_equals_dense_under_mask" ELSE "ok"
           [] q.r = "stripped" ->        \* 1-D only
                IF AllZero(runs) THEN
                     (IF q.res.n # 0 THEN "stripped_of_empty_is_empty"
                      ELSE IF q.pad[1][1] + q.pad[1][2] # Total(runs) THEN "stripped_padding_of_empty_covers_axis" ELSE "ok")
                ELSE IF ProjRuns(q.res) # StripRuns(runs) THEN "stripped_values"
                ELSE IF q.pad # <<<<LeadZeros(runs), TrailZeros(runs)>>>> THEN "stripped_padding" ELSE "ok"
           [] q.r = "rld" ->
                IF ~RleWF(q.v, q.max) THEN "rle_counts_within_dtype_max"
                ELSE IF RleRuns(q.v) # runs THEN "run_length_data_denotes_dense" ELSE "ok"
           [] q.r = "brld" ->
                IF ~BrleWF(q.v, q.max) THEN "brle_counts_within_dtype_max"
                ELSE IF BrleRuns(q.v) # runs THEN "binary_run_length_data_denotes_dense" ELSE "ok"
           [] OTHER -> "unknown_read"

(***************************************************************************)
(* Part 3.  VoxelGrid                                                      *)
(* Matrices are recorded multiplied by 4 (entries are quarter integers).   *)
(***************************************************************************)
Apply4(M, t, ix) == [r \in 1..3 |-> M[r][1] * ix[1] + M[r][2] * ix[2] + M[r][3] * ix[3] + t[r]]
Det3(M) == M[1][1] * (M[2][2] * M[3][3] - M[2][3] * M[3][2])
         - M[1][2] * (M[2][1] * M[3][3] - M[2][3] * M[3][1])
         + M[1][3] * (M[2][1] * M[3][2] - M[2][2] * M[3][1])
\* A grid is built with the transform (M4, t4) and then edited in place by the steps of c.hist
\* (possibly after reads that fill the caches):  apply_transform(Mi, t) : x -> Mi x + t  with an
\* integer matrix Mi,  apply_scale(s) = apply_transform(diag(s,s,s), 0),  apply_translation(t) =
\* apply_transform(identity, t),  set = assignment of a new matrix.  The maps, the volume and the
\* points of the edited grid are those of a grid built with the composed transform.
MatVec3(M, v) == [r \in 1..3 |-> M[r][1] * v[1] + M[r][2] * v[2] + M[r][3] * v[3]]
MatMul3(A, B) == [r \in 1..3 |-> [cc \in 1..3 |-> A[r][1] * B[1][cc] + A[r][2] * B[2][cc] + A[r][3] * B[3][cc]]]
Diag3(a, b, d) == <<<<a, 0, 0>>, <<0, b, 0>>, <<0, 0, d>>>>
StepM(h) == CASE h.op = "apply_transform" -> h.Mi
              [] h.op = "apply_scale" -> Diag3(h.s, h.s, h.s)
              [] h.op = "apply_translation" -> Diag3(1, 1, 1)
StepT(h) == IF h.op = "apply_scale" THEN <<0, 0, 0>> ELSE h.t4
RECURSIVE EffTf(_, _, _, _)
EffTf(M4, t4, h, k) ==
    IF k > Len(h) THEN <<M4, t4>>
    ELSE IF h[k].op = "set" THEN EffTf(h[k].M4, h[k].t4, h, k + 1)
    ELSE EffTf(MatMul3(StepM(h[k]), M4),
               [r \in 1..3 |-> MatVec3(StepM(h[k]), t4)[r] + StepT(h[k])[r]], h, k + 1)
GM(c) == IF Has(c, "hist") THEN EffTf(c.M4, c.t4, c.hist, 1)[1] ELSE c.M4
GT(c) == IF Has(c, "hist") THEN EffTf(c.M4, c.t4, c.hist, 1)[2] ELSE c.t4

\* indices_to_points is the affine map; points_to_indices inverts it on cell centres;
\* is_filled / points agree with the dense array
OkGridMaps(c) ==
    LET D == Arr(c.data, c.shape) IN
    IF \E k \in 1..Len(c.idx) : c.pts4[k] # Apply4(GM(c), GT(c), c.idx[k]) THEN "indices_to_points_is_the_affine_map"
    ELSE IF c.back # c.idx THEN "points_to_indices_inverts_indices_to_points"
    ELSE IF Has(c, "filled") /\ \E k \in 1..Len(c.idx) : InShape(c.idx[k], c.shape) /\ c.filled[k] # AtIx(D, c.idx[k])
         THEN "is_filled_equals_dense_at_cell"
    ELSE IF Has(c, "points4") /\ (Range(c.points4) # {Apply4(GM(c), GT(c), ix) : ix \in FilledIx(D)}
                                  \/ Len(c.points4) # Cardinality(FilledIx(D)))
         THEN "points_are_centres_of_filled_cells"
    ELSE "ok"
\* volume = filled count * |det| ; vol64 = volume * 4^3 snapped to an integer by the harness
OkGridVolume(c) ==
    LET n == SumSeq(c.data) IN
    IF c.count # n THEN "filled_count"
    ELSE IF c.vol64 # n * Abs(Det3(GM(c))) THEN "volume_is_filled_count_times_cell_volume" ELSE "ok"

\* points inside a cell (centre + d, |d| <= 7/16 of a cell on every axis, d16 = 16 d): the point
\* handed to the code is  M (idx + d) + t  with the matrix the grid reports, recorded * 64 - it must be
\* the point of the composed transform;  points_to_indices must name the cell and is_filled must
\* answer for that cell (False outside the array); results keep the shape of the input
\* (pshape = shape of the point array, last axis 3)
OkGridOff(c) ==
    LET D == Arr(c.data, c.shape)
        M == GM(c)
        t == GT(c)
        P64(k) == [r \in 1..3 |-> MatVec3(M, [a \in 1..3 |-> 16 * c.idx[k][a] + c.d16[k][a]])[r] + 16 * t[r]]
        lead == [a \in 1..(Len(c.pshape) - 1) |-> c.pshape[a]]
    IN IF \E k \in 1..Len(c.idx) : \E a \in 1..3 : Abs(c.d16[k][a]) > 7 THEN "harness_offset_leaves_the_cell"
       ELSE IF \E k \in 1..Len(c.idx) : c.pts64[k] # P64(k) THEN "grid_transform_is_the_composed_one"
       ELSE IF c.bshape # c.pshape THEN "points_to_indices_keeps_the_shape_of_its_input"
       ELSE IF c.back # c.idx THEN "points_to_indices_names_the_cell_containing_the_point"
       ELSE IF c.fshape # lead THEN "is_filled_answers_once_per_point"
       ELSE IF \E k \in 1..Len(c.idx) :
                 c.filled[k] # (IF InShape(c.idx[k], c.shape) THEN AtIx(D, c.idx[k]) ELSE 0)
            THEN "is_filled_answers_for_the_cell_containing_the_point"
       ELSE "ok"

\* VoxelGrid.strip() on a non-empty grid: the array becomes the bounding box of the filled cells, the
\* matrix keeps its linear part, the translation becomes the centre of the first kept cell, and the
\* filled cells stay where they were
OkGridStrip(c) ==
    LET D == Arr(c.data, c.shape) IN
    IF IsEmpty(D) THEN "ok"
    ELSE IF c.rshape # Stripped(D).shape THEN "strip_keeps_the_bounding_box_of_the_filled_cells"
    ELSE IF c.rflat # Stripped(D).flat THEN "strip_keeps_the_values"
    ELSE IF c.rM4 # c.M4 THEN "strip_keeps_the_linear_part_of_the_transform"
    ELSE IF c.rt4 # Apply4(c.M4, c.t4, Lo(D)) THEN "strip_moves_the_origin_to_the_first_kept_cell"
    ELSE IF Range(c.points4) # {Apply4(c.M4, c.t4, ix) : ix \in FilledIx(D)}
            \/ Len(c.points4) # Cardinality(FilledIx(D)) THEN "strip_leaves_every_filled_cell_where_it_was"
    ELSE IF c.same_object # 1 THEN "strip_mutates_and_returns_self"
    ELSE "ok"

\* the free functions of voxel.ops: pitch and origin are optional (no scaling / no shift)
OkOpsMaps(c) ==
    LET p4 == IF c.has_pitch = 1 THEN c.pitch4 ELSE 4
        o4 == IF c.has_origin = 1 THEN c.origin4 ELSE <<0, 0, 0>>
        M == Diag3(p4, p4, p4)
    IN IF \E k \in 1..Len(c.idx) : c.pts4[k] # Apply4(M, o4, c.idx[k]) THEN "indices_to_points_is_the_affine_map"
       ELSE IF c.back # c.idx THEN "points_to_indices_inverts_indices_to_points" ELSE "ok"
\* ops.strip_array: the bounding box of the non-zero cells (its padding result is not constrained)
OkOpsStrip(c) ==
    LET D == Arr(c.data, c.shape) IN
    IF IsEmpty(D) THEN "ok"
    ELSE IF c.rshape # Stripped(D).shape THEN "strip_array_is_the_bounding_box_of_the_filled_cells"
    ELSE IF c.rflat # Stripped(D).flat THEN "strip_array_keeps_the_values" ELSE "ok"
\* binvox export + reload: shape, filled cells and transform survive
OkGridBinvox(c) ==
    LET D == Arr(c.data, c.shape) IN
    IF c.rshape # c.shape THEN "binvox_shape"
    ELSE IF Range(c.rfilled) # FilledIx(D) \/ Len(c.rfilled) # Cardinality(FilledIx(D)) THEN "binvox_filled_cells"
    ELSE IF c.rM4 # c.M4 \/ c.rt4 # c.t4 THEN "binvox_transform"
    ELSE "ok"

\* the same for a mirrored grid (negative scale): the exporter may re-orient the array, so only the
\* shape and the world positions of the filled cells are compared; with c.hist the grid was edited in
\* place before the export (GM / GT compose the edits)
\* a finely pitched grid far from the origin: cell ix of the original grid has its centre at
\* (o + signs * ix) / den  (o up to 2^30 cells from the origin).  After export and reload the cells, and
\* the reloaded grid's own index <-> point maps at the original centres, must be those of the original:
\* back = the cell the reloaded grid names for each original centre, rel16 = the centre it gives that
\* cell, in sixteenths of a cell relative to o (onlat = 0: not within 1e-3 of that lattice)
OkGridBinvoxFar(c) ==
    LET D == Arr(c.data, c.shape)
        \* the exporter re-orients the array of a mirrored grid: its cells are then only compared in space
        mirrored == \E a \in 1..3 : c.signs[a] < 0
    IN
    IF c.rshape # c.shape THEN "binvox_shape"
    ELSE IF Len(c.rfilled) # Cardinality(FilledIx(D)) \/ (~mirrored /\ Range(c.rfilled) # FilledIx(D)) THEN "binvox_filled_cells"
    ELSE IF ~mirrored /\ c.back # c.idx THEN "reloaded_grid_names_the_original_cell_for_every_original_centre"
    ELSE IF c.onlat # 1 \/ \E k \in 1..Len(c.idx) : \E a \in 1..3 : c.rel16[k][a] # 16 * c.signs[a] * c.idx[k][a]
         THEN "reloaded_grid_keeps_every_cell_centre_where_it_was"
    ELSE IF \E k \in 1..Len(c.idx) : c.filled2[k] # AtIx(D, c.idx[k]) THEN "reloaded_grid_is_filled_at_the_original_centres"
    ELSE "ok"

OkGridBinvoxPoints(c) ==
    LET D == Arr(c.data, c.shape) IN
    IF c.rshape # c.shape THEN "binvox_shape"
    ELSE IF Range(c.rpoints4) # {Apply4(GM(c), GT(c), ix) : ix \in FilledIx(D)}
            \/ Len(c.rpoints4) # Cardinality(FilledIx(D)) THEN "binvox_filled_cells_keep_their_position"
    ELSE "ok"

\* a grid exported, loaded (the loaded grid stores uint8 run-length data whose runs are split at
\* 255), queried, exported again and loaded again; the data are described by runs `dr` of the
\* row-major array, recorded matrices / is_filled answers come back as runs of the same order
OkGridReload(c) ==
    LET runs == Canon(c.dr) IN
    IF c.rshape2 # c.shape \/ c.rshape3 # c.shape THEN "binvox_shape"
    ELSE IF ProjRuns(c.m2) # runs THEN "binvox_filled_cells"
    ELSE IF c.count2 # SumRuns(runs) THEN "loaded_grid_filled_count"
    ELSE IF ProjRuns(c.filled2) # runs THEN "loaded_grid_is_filled_equals_dense_at_cell"
    ELSE IF ProjRuns(c.m3) # runs THEN "binvox_reexport_of_loaded_grid_keeps_filled_cells"
    ELSE IF c.rM4 # c.M4 \/ c.rt4 # c.t4 THEN "binvox_transform"
    ELSE "ok"

(***************************************************************************)
(* Part 4.  Batch validator                                                *)
(***************************************************************************)
Clause(c) ==
    CASE c.fn = "dense_to_rle" -> OkDenseToRle(c)
      [] c.fn = "dense_to_brle" -> OkDenseToBrle(c)
      [] c.fn = "rle_to_dense" -> OkRleToDense(c)
      [] c.fn = "brle_to_dense" -> OkBrleToDense(c)
      [] c.fn = "rle_to_brle" -> OkRleToBrle(c)
      [] c.fn = "brle_to_rle" -> OkBrleToRle(c)
      [] c.fn \in {"rle_to_rle", "merge_rle_lengths", "split_long_rle_lengths"} -> OkRleToRle(c)
      [] c.fn \in {"brle_to_brle", "merge_brle_lengths", "split_long_brle_lengths"} -> OkBrleToBrle(c)
      [] c.fn = "rle_length" -> OkRleLength(c)
      [] c.fn = "brle_length" -> OkBrleLength(c)
      [] c.fn = "brle_logical_not" -> OkBrleNot(c)
      [] c.fn = "rle_reverse" -> OkRleReverse(c)
      [] c.fn = "brle_reverse" -> OkBrleReverse(c)
      [] c.fn = "rle_strip" -> OkRleStrip(c)
      [] c.fn = "brle_strip" -> OkBrleStrip(c)
      [] c.fn = "rle_to_sparse" -> OkRleToSparse(c)
      [] c.fn = "brle_to_sparse" -> OkBrleToSparse(c)
      [] c.fn \in {"rle_gather_1d", "sorted_rle_gather_1d"} -> OkGather(c, RleRuns(c.e))
      [] c.fn \in {"brle_gather_1d", "sorted_brle_gather_1d"} -> OkGather(c, BrleRuns(c.e))
      [] c.fn = "rle_mask" -> OkMask(c, RleRuns(c.e))
      [] c.fn = "brle_mask" -> OkMask(c, BrleRuns(c.e))
      [] c.fn = "grid_maps" -> OkGridMaps(c)
      [] c.fn = "grid_volume" -> OkGridVolume(c)
      [] c.fn = "grid_off" -> OkGridOff(c)
      [] c.fn = "grid_strip" -> OkGridStrip(c)
      [] c.fn = "ops_maps" -> OkOpsMaps(c)
      [] c.fn = "ops_strip_array" -> OkOpsStrip(c)
      [] c.fn = "grid_binvox" -> OkGridBinvox(c)
      [] c.fn = "grid_binvox_points" -> OkGridBinvoxPoints(c)
      [] c.fn = "grid_binvox_far" -> OkGridBinvoxFar(c)
      [] c.fn = "grid_reload" -> OkGridReload(c)
      [] OTHER -> "unknown_function"

FnClause(c) ==
    IF NegIndex(c) THEN NegGatherClause(c)
    ELSE IF OutOfRange(c) THEN (IF c.exc = "IndexError" THEN "ok" ELSE "out_of_range_index_raises_IndexError")
    ELSE IF c.exc # "" THEN "raised_" \o c.exc
    ELSE Clause(c)

\* an "enc" record carries all reads of one expression tree; read number q is reported under
\* id + q (ids are allocated with that stride), a failure to build the tree under id itself
ReportEnc(c) ==
    IF c.exc # "" THEN PrintT(<<"REJECT", c.id, "build_raised_" \o c.exc>>)
    ELSE LET D == Den(c) IN
         \A q \in 1..Len(c.reads) :
             LET cl == ReadClause(D, c.reads[q]) IN
             IF cl # "ok" THEN PrintT(<<"REJECT", c.id + q, cl>>) ELSE TRUE

ReportEnc1(c) ==
    IF c.exc # "" THEN PrintT(<<"REJECT", c.id, "build_raised_" \o c.exc>>)
    ELSE LET D == View1(BaseRuns(c), <<Total(BaseRuns(c))>>, c.view, 1) IN
         \A q \in 1..Len(c.reads) :
             LET cl == Read1Clause(D[1], D[2], c.reads[q]) IN
             IF cl # "ok" THEN PrintT(<<"REJECT", c.id + q, cl>>) ELSE TRUE

Init == i = 1
Next == i < Len(Cases) /\ i' = i + 1
Report == LET c == Cases[i] IN
          IF c.fn = "enc" THEN ReportEnc(c)
          ELSE IF c.fn = "enc1d" THEN ReportEnc1(c)
          ELSE LET cl == FnClause(c) IN IF cl # "ok" THEN PrintT(<<"REJECT", c.id, cl>>) ELSE TRUE

\* internal sanity of the reference, evaluated on the recorded inputs themselves:
\* canonical runs and the dense denotation agree; flips are involutions; a transpose is undone by
\* the inverse permutation; reshape/flat keep the row-major order
InvPerm(p) == [b \in 1..Len(p) |-> (CHOOSE a \in 1..Len(p) : p[a] = b - 1) - 1]
RefSane ==
    LET c == Cases[i] IN
    /\ (Has(c, "e") /\ c.fn \in {"rle_to_dense", "rle_reverse", "rle_strip"} /\ Total(RleRuns(c.e)) <= 24) =>
           /\ DenseRuns(RleDense(c.e)) = RleRuns(c.e)
           /\ Len(RleDense(c.e)) = Total(RleRuns(c.e))
           /\ \A k \in 1..Len(RleDense(c.e)) : RleDense(c.e)[k] = At(RleRuns(c.e), k - 1)
    /\ (Has(c, "e") /\ c.fn \in {"brle_to_dense", "brle_reverse", "brle_strip"} /\ Total(BrleRuns(c.e)) <= 24) =>
           /\ DenseRuns(BrleDense(c.e)) = BrleRuns(c.e)
           /\ Expand(Rev(BrleRuns(c.e))) = Rev(BrleDense(c.e))
           /\ Expand(Canon(NotRuns(BrleRuns(c.e)))) = [k \in 1..Len(BrleDense(c.e)) |-> 1 - BrleDense(c.e)[k]]
    /\ (c.fn = "enc" /\ Len(c.chain) <= 1) =>
           LET A == Arr(c.data, c.shape) nd == Len(c.shape) IN
           /\ Len(c.data) = Prod(c.shape)
           /\ \A k \in 1..Len(c.data) : Ravel(Unravel(k - 1, c.shape), c.shape) = k - 1
           /\ \A a \in 0..(nd - 1) : Flip(Flip(A, <<a>>), <<a>>) = A
           /\ \A k \in 1..Len(c.chain) :
                  c.chain[k].op = "transpose" /\ Len(c.chain[k].perm) = nd =>
                      Transpose(Transpose(A, c.chain[k].perm), InvPerm([a \in 1..nd |-> NormAxis(c.chain[k].perm[a], nd)])) = A
           /\ Flat(Den(c)).flat = Den(c).flat
=============================================================================
