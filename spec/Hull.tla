----------------------------- MODULE Hull -----------------------------
(***************************************************************************)
(* Reference semantics of convex hulls and bounding volumes of small       *)
(* lattice point sets (property C16) and a batch validator of recorded     *)
(* calls of trimesh.convex.convex_hull, PointCloud/Trimesh.convex_hull,    *)
(* .bounds, .extents, .bounding_box, .bounding_box_oriented, .apply_obb,   *)
(* bounds.oriented_bounds(_2D), nsphere.minimum_nsphere, .bounding_sphere, *)
(* bounds.minimum_cylinder, .bounding_cylinder.                            *)
(*                                                                         *)
(* INPUT.  c.pts is the sequence of input points (vertices of the mesh, at  *)
(* most 16), integer coordinates in 0..3, c.dim in {2, 3}.  The implementation was   *)
(* handed  q = (p + off) * sc  (c.off an integer vector, 0 or +-10^4 per   *)
(* axis; sc = 2^c.sce, in the base families 1 or 2^10; see MAGNITUDES      *)
(* below): every such q is an exact double, and so is                      *)
(* the way back  p = q / sc - off.  Translation and scaling by a positive  *)
(* factor commute with everything stated below (hull combinatorics,        *)
(* containment, minimal ball, rigid box frame), so the harness maps every  *)
(* returned coordinate back by the same exact offset and scale, and this   *)
(* module only ever sees the small numbers.  All products stay < 2^31.     *)
(*                                                                         *)
(* EXACT part (integers / rationals with a common denominator):            *)
(*  hull    hv[k] = 0-based index of the input point that hull vertex k    *)
(*          equals (-1: it is no input point); hf = faces, 0-based indices *)
(*          into hv.  Required: every hull vertex is an input point; every *)
(*          sorted edge of hf lies in exactly two faces and the two uses   *)
(*          run in opposite directions (watertight, consistently wound);   *)
(*          for every face (a, b, c) with normal n = (b-a) x (c-a) every   *)
(*          input point p has n.(p-a) <= 0 (convex, non-strict; contains   *)
(*          every input; a face with all inputs on the non-negative side   *)
(*          and one strictly positive is reported as wound inward); every  *)
(*          extreme input point (not in the convex hull of the other       *)
(*          points, decided by Caratheodory: in no segment, triangle or    *)
(*          tetrahedron spanned by others) is a hull vertex.               *)
(*          NOT decided: whether inputs lying on hull faces or edges are   *)
(*          vertices, and faces of zero area (they have no side).          *)
(*  aabb    bounds = exact coordinatewise min / max; extents = max - min;  *)
(*          bounding_box: same extents, centre (min+max)/2, no rotation.   *)
(*  sphere  the minimal enclosing ball MEB(pts) is computed here exactly   *)
(*          (centre cn/cd with a common denominator, r^2 = n2/cd^2) as the *)
(*          circumball of a support set S of 2..4 affinely independent     *)
(*          inputs whose centre lies in conv(S) and which contains every   *)
(*          input (that ball is unique).  The harness snaps the reported   *)
(*          centre to fractions of denominator <= 2000 (residual <= 1e-7)  *)
(*          and r^2 cd^2 to an integer (residual <= 0.05): then containment*)
(*          is the exact inequality and, for inputs in general position    *)
(*          (3D: no five inputs on a common sphere; 2D: no four on a       *)
(*          common circle; by in-sphere / in-circle determinants), the     *)
(*          reported ball must equal MEB.  When the centre does not snap   *)
(*          (obs.snap = FALSE) the WEAKER fixed-point form is used:        *)
(*          containment with slack EPS, centre within EPS of the MEB centre*)
(*          per axis and some input within 2 EPS of the boundary.          *)
(*          For inputs not in general position only containment is stated. *)
(*          An accepted sphere record is reported back as a note_... line  *)
(*          (which form was decided, how many inputs lie on the boundary   *)
(*          of the exact ball): coverage, not a rejection.                 *)
(*                                                                         *)
(* HISTORIES.  The property speaks of the geometry as it is when it is     *)
(* asked: a record made in the middle of a history on one object (volumes  *)
(* read in some order, the object moved by apply_translation / apply_scale *)
(* / apply_transform with exact integer maps, volumes read again) carries  *)
(* in c.pts the vertices the object has AT THAT MOMENT (read back from the *)
(* object after the volumes, mapped back by the current exact offset and   *)
(* scale: off in -20000..20000, sc a power of two <= 4096) and is judged   *)
(* exactly like a record of a fresh object; c.hist names the steps so far. *)
(*                                                                         *)
(* WIDE inputs (kind "hullw"): tight lattice clusters far apart.  A point  *)
(* is <<cl, lo>>, its coordinates are cl[a] * L + lo[a] with L = 10^5,     *)
(* cl[a] in 0..2, lo[a] in 0..3.  Orientation determinants are evaluated   *)
(* as polynomials in L (integer coefficients, degree <= 3, every           *)
(* coefficient below 10^4 in absolute value), whose sign at L = 10^5 is    *)
(* the sign of the highest non-zero coefficient: exact, and every number   *)
(* stays small.  An input counts as outside a face plane only when its     *)
(* normalised volume with the face exceeds 10^-9 (WBeyond: four points     *)
(* that are coplanar to 10^-9 have no side an implementation in doubles    *)
(* could be held to).                                                      *)
(* Hull clauses as above except the separate extreme-point                 *)
(* clause (for a closed convex surface through input points that contains  *)
(* every input it is implied).                                             *)
(*                                                                         *)
(* MAGNITUDES and SHAPES (audit extension).  The implementation is handed  *)
(*   q[a] = (p[a] + off[a]) * 2^sce[a]                                     *)
(* with integer off (|off| <= 2^30) and integer exponents sce (one per     *)
(* axis, -30..70): again every q is an exact double and the harness maps   *)
(* results back exactly.  Equal exponents on all axes ("widely scaled":    *)
(* 2^-26 .. 2^60, "translated far": 2^20 .. 2^30 lattice steps) leave      *)
(* every clause below unchanged.  Different exponents per axis (flat-ish   *)
(* and needle-like sets, aspect down to 2^-24) are an affine map: hull     *)
(* combinatorics / sidedness and the axis-aligned box are invariant, so    *)
(* kinds hull and aabb are judged as before; the oriented box of such a    *)
(* set is judged in the normalised form "obbn" (below); sphere and         *)
(* cylinder are not judged there.                                          *)
(*  hull (o.raw)  convex_hull(repair=False) promises no winding: only      *)
(*          vertices, watertightness, every input on ONE side of every     *)
(*          face plane and the extreme points are demanded.                *)
(*  hullb   larger sets (up to 64 points of {0..7}^3): as hull without the *)
(*          separate extreme-point clause (implied, as for hullw).         *)
(*  ballc   larger sets: containment in the reported ball (fixed point,    *)
(*          slack o.eps) and some input within 2 eps of its boundary.      *)
(*  obbn    apply_obb on a set with different exponents per axis: W as for *)
(*          obb (rigid, no reflection); u[k][a] = round(10^6 * moved       *)
(*          vertex k, axis a / (reported extent a / 2)): every |u| <=      *)
(*          10^6 + 100 and the moved set centred (|min + max| <= 200).     *)
(*  obbf / aabbf  FLAT geometry (round 2): three or more points of ONE    *)
(*          plane of space that span it (a single triangle, a flat sheet):  *)
(*          the hull clause of the property needs a spanning set, the       *)
(*          clauses on the axis-aligned and the oriented box do not, and    *)
(*          bounds.oriented_bounds has a documented branch for such input   *)
(*          (coplanar_tol).  Judged by the obb / aabb clauses unchanged     *)
(*          (the reported extent across the plane is about zero).  Sphere,  *)
(*          cylinder and hull of flat input are NOT judged.                 *)
(*  obb / cyl records may carry o.eps (slack in fixed-point units, 10 when *)
(*  absent in spirit: 10 for {0..3}^3, 25 for {0..7}^3 where the rounding  *)
(*  of W alone costs 0.5 * 7 * 3 units).                                   *)
(*                                                                         *)
(* FIXED-POINT part (the weakest checks; values are round(x * 10^4)):      *)
(*  obb     W (rotation rows) and t of the matrix taking input coordinates *)
(*          to the box frame, ext = reported extents.  Rigid:              *)
(*          |W W^T - I| <= 5e-4 per entry and det > 0; every W p + t       *)
(*          within ext/2 + EPS of the origin per axis; the axis-aligned    *)
(*          box of the transformed inputs centred (|min + max| <= 2 EPS),  *)
(*          as the docstrings of bounds.oriented_bounds ("move the center  *)
(*          of the bounding box of the input mesh to the origin") and      *)
(*          apply_obb ("an AABB centered at the origin") say.  For         *)
(*          primitives W, t is the numpy inverse of primitive.transform.   *)
(*          Rounding budget of the fixed point itself: 5.5 units; EPS = 10 *)
(*          units = 1e-3 of a lattice step.  Minimality NOT stated.        *)
(*  cyl     W, t as above for the cylinder frame (axis = z), r, h: rigid;  *)
(*          every input within r + EPS of the axis and h/2 + EPS of the    *)
(*          mid-plane.  Minimality NOT stated.                             *)
(***************************************************************************)
\* Clause names (api prefix + name) stay below 50 characters (TLC wraps long printed tuples).
EXTENDS Integers, Sequences, FiniteSets, TLC, Json

Cases == ndJsonDeserialize("cases.ndjson")
VARIABLE i

K == 10000          \* fixed-point unit
EPS == 10           \* containment slack, units of 1/K
EPSR == 50000       \* |W W^T - I| slack, units of 1/K^2

Range(s) == {s[k] : k \in 1..Len(s)}
Abs(x) == IF x < 0 THEN -x ELSE x
Min2(a, b) == IF a <= b THEN a ELSE b
Max2(a, b) == IF a <= b THEN b ELSE a
RECURSIVE GCD(_, _)
GCD(a, b) == IF b = 0 THEN a ELSE GCD(b, a % b)

\* ------------------------------------------------------------ vectors
Sub(p, q) == <<p[1] - q[1], p[2] - q[2], p[3] - q[3]>>
Add(p, q) == <<p[1] + q[1], p[2] + q[2], p[3] + q[3]>>
Scale(k, p) == <<k * p[1], k * p[2], k * p[3]>>
Dot(u, v) == u[1] * v[1] + u[2] * v[2] + u[3] * v[3]
Cross(u, v) == <<u[2] * v[3] - u[3] * v[2], u[3] * v[1] - u[1] * v[3], u[1] * v[2] - u[2] * v[1]>>
Det3(a, b, c) == Dot(a, Cross(b, c))
\* 6 x signed volume of (a, b, c, d): > 0 iff d lies on the side of plane abc that (b-a) x (c-a) points to
Vol(a, b, c, d) == Det3(Sub(b, a), Sub(c, a), Sub(d, a))
Lift(p) == IF Len(p) = 2 THEN <<p[1], p[2], 0>> ELSE p
LiftAll(P) == [k \in 1..Len(P) |-> Lift(P[k])]
LiftM(W) == IF Len(W) = 2 THEN <<<<W[1][1], W[1][2], 0>>, <<W[2][1], W[2][2], 0>>, <<0, 0, K>>>> ELSE W

\* ------------------------------------------------------------ topology of the face array
\* (definitions as in Topology.tla; faces are triples of 0-based vertex ids)
Sorted(e) == <<Min2(e[1], e[2]), Max2(e[1], e[2])>>
Rev(e) == <<e[2], e[1]>>
EdgeOf(F, k) == LET f == (k - 1) \div 3  j == (k - 1) % 3
                IN <<F[f + 1][j + 1], F[f + 1][((j + 1) % 3) + 1]>>
Edges(F) == [k \in 1..(3 * Len(F)) |-> EdgeOf(F, k)]                 \* directed, stacked per face
EdgesSorted(F) == [k \in 1..(3 * Len(F)) |-> Sorted(EdgeOf(F, k))]
Occ(S, e) == {k \in 1..Len(S) : S[k] = e}
Watertight(S) == \A e \in Range(S) : Cardinality(Occ(S, e)) = 2      \* every edge in exactly two corners
WindingConsistent(E, S) ==                                           \* ... used once in each direction
    \A e \in Range(S) : LET o == Occ(S, e) IN
        Cardinality(o) = 2 => \A a, b \in o : a # b => E[a] = Rev(E[b])

\* ------------------------------------------------------------ convex position (exact)
InSeg(p, a, b) == LET u == Sub(b, a)  v == Sub(p, a) IN
    u # <<0, 0, 0>> /\ Cross(u, v) = <<0, 0, 0>> /\ Dot(v, u) >= 0 /\ Dot(v, u) <= Dot(u, u)
InTri(p, a, b, c) == LET n == Cross(Sub(b, a), Sub(c, a)) IN
    /\ n # <<0, 0, 0>>
    /\ Dot(n, Sub(p, a)) = 0
    /\ Dot(n, Cross(Sub(b, a), Sub(p, a))) >= 0
    /\ Dot(n, Cross(Sub(c, b), Sub(p, b))) >= 0
    /\ Dot(n, Cross(Sub(a, c), Sub(p, c))) >= 0
InTet(p, a, b, c, d) == LET o == Vol(a, b, c, d) IN
    /\ o # 0
    /\ LET s == IF o > 0 THEN 1 ELSE -1 IN
       /\ s * Vol(p, b, c, d) >= 0 /\ s * Vol(a, p, c, d) >= 0
       /\ s * Vol(a, b, p, d) >= 0 /\ s * Vol(a, b, c, p) >= 0
\* p in the convex hull of {P[k] : k \in I}  (Caratheodory: in a simplex on at most 4 of them)
InConv(p, P, I) ==
    \/ \E a \in I : P[a] = p
    \/ \E a \in I : \E b \in {x \in I : x > a} :
         \/ InSeg(p, P[a], P[b])
         \/ \E c \in {x \in I : x > b} :
              \/ InTri(p, P[a], P[b], P[c])
              \/ \E d \in {x \in I : x > c} : InTet(p, P[a], P[b], P[c], P[d])
Extreme(P, k) == ~InConv(P[k], P, {j \in 1..Len(P) : P[j] # P[k]})
Spans3(P) == \E a \in 1..Len(P) : \E b \in (a+1)..Len(P) : \E c \in (b+1)..Len(P) : \E d \in (c+1)..Len(P) :
                 Vol(P[a], P[b], P[c], P[d]) # 0
Spans2(P) == \E a \in 1..Len(P) : \E b \in (a+1)..Len(P) : \E c \in (b+1)..Len(P) :
                 Cross(Sub(P[b], P[a]), Sub(P[c], P[a])) # <<0, 0, 0>>

\* ------------------------------------------------------------ hull of a recorded mesh
\* o.hv, o.hf as described in the header; P the (lifted) inputs
HullGeneral(P, o, raw, extreme) ==
    LET hv == o.hv  F == o.hf
        nV == Len(hv)
        V == [k \in 1..nV |-> IF hv[k] >= 0 /\ hv[k] < Len(P) THEN P[hv[k] + 1] ELSE <<0, 0, 0>>]
        E == Edges(F)
        S == EdgesSorted(F)
        tri(f) == <<V[F[f][1] + 1], V[F[f][2] + 1], V[F[f][3] + 1]>>
        side(f, k) == LET t == tri(f) IN Vol(t[1], t[2], t[3], P[k])
        pos(f) == {k \in 1..Len(P) : side(f, k) > 0}
        neg(f) == {k \in 1..Len(P) : side(f, k) < 0}
        onhull == {hv[k] + 1 : k \in 1..nV}
    IN
    IF Len(F) = 0 \/ nV = 0 THEN "hull_is_empty"
    ELSE IF \E k \in 1..nV : hv[k] < 0 \/ hv[k] >= Len(P) THEN "hull_vertex_is_not_an_input_point"
    ELSE IF \E f \in 1..Len(F) : \E j \in 1..3 : F[f][j] < 0 \/ F[f][j] >= nV THEN "hull_face_index_out_of_range"
    ELSE IF ~Watertight(S) THEN "hull_not_watertight"
    ELSE IF raw /\ \E f \in 1..Len(F) : pos(f) # {} /\ neg(f) # {} THEN "hull_not_convex_inputs_on_both_sides"
    ELSE IF ~raw /\ ~WindingConsistent(E, S) THEN "hull_winding_inconsistent"
    ELSE IF ~raw /\ \E f \in 1..Len(F) : pos(f) # {} /\ neg(f) = {} THEN "hull_face_wound_inward"
    ELSE IF ~raw /\ \E f \in 1..Len(F) : pos(f) # {} THEN "hull_not_convex_input_outside_face_plane"
    ELSE IF extreme /\ \E k \in 1..Len(P) : k \notin onhull /\ (\A j \in onhull : P[j] # P[k]) /\ Extreme(P, k)
         THEN "hull_misses_an_extreme_input_point"
    ELSE IF ~o.wt THEN "hull_reports_is_watertight_false"
    ELSE IF ~raw /\ ~o.wc THEN "hull_reports_is_winding_consistent_false"
    ELSE IF ~raw /\ ~o.volpos THEN "hull_reports_volume_not_positive"
    ELSE IF ~raw /\ ~o.cvx THEN "hull_reports_is_convex_false"
    ELSE "ok"
HullClause(P, o) == HullGeneral(P, o, o.raw, TRUE)
HullBigClause(P, o) == HullGeneral(P, o, FALSE, FALSE)

\* ------------------------------------------------------------ wide inputs: polynomials in L
\* a polynomial a0 + a1 L + a2 L^2 + a3 L^3 is <<a0, a1, a2, a3>>
PAdd(p, q) == <<p[1] + q[1], p[2] + q[2], p[3] + q[3], p[4] + q[4]>>
PSub(p, q) == <<p[1] - q[1], p[2] - q[2], p[3] - q[3], p[4] - q[4]>>
PMul(p, q) == <<p[1] * q[1], p[1] * q[2] + p[2] * q[1], p[1] * q[3] + p[2] * q[2] + p[3] * q[1],
                p[1] * q[4] + p[2] * q[3] + p[3] * q[2] + p[4] * q[1]>>       \* degree never exceeds 3 here
Sgn(x) == IF x > 0 THEN 1 ELSE IF x < 0 THEN -1 ELSE 0
\* sign at L = 10^5: the highest non-zero coefficient decides because every |coefficient| < L - 1
PSign(p) == IF p[4] # 0 THEN Sgn(p[4]) ELSE IF p[3] # 0 THEN Sgn(p[3]) ELSE IF p[2] # 0 THEN Sgn(p[2]) ELSE Sgn(p[1])
PSmall(p) == \A k \in 1..4 : Abs(p[k]) < 10000
\* difference vector of two wide points <<cl, lo>>: three linear polynomials
WSub(p, q) == [a \in 1..3 |-> <<p[2][a] - q[2][a], p[1][a] - q[1][a], 0, 0>>]
WDet3(u, v, w) == PAdd(PSub(PMul(u[1], PSub(PMul(v[2], w[3]), PMul(v[3], w[2]))),
                            PMul(u[2], PSub(PMul(v[1], w[3]), PMul(v[3], w[1])))),
                       PMul(u[3], PSub(PMul(v[1], w[2]), PMul(v[2], w[1]))))
WVol(a, b, c, d) == WDet3(WSub(b, a), WSub(c, a), WSub(d, a))
WSide(a, b, c, d) == PSign(WVol(a, b, c, d))        \* as Vol above: > 0 iff d on the side the normal points to
PDeg(p) == IF p[4] # 0 THEN 3 ELSE IF p[3] # 0 THEN 2 ELSE IF p[2] # 0 THEN 1 ELSE IF p[1] # 0 THEN 0 ELSE -1
WCross(u, v) == <<PSub(PMul(u[2], v[3]), PMul(u[3], v[2])), PSub(PMul(u[3], v[1]), PMul(u[1], v[3])),
                  PSub(PMul(u[1], v[2]), PMul(u[2], v[1]))>>
\* d lies beyond the plane of (a, b, c) by more than the tolerance granted to an implementation that
\* computes in doubles.  The tolerance is put on the scale-free orientation measure: the four points
\* count as coplanar when  |det| <= 10^-9 |b-a| |c-a| |d-a|  (normalised volume; 10^-9 is the relative
\* tolerance used for every snapped value in this framework).  A distance to the face plane would not do:
\* the plane of a sliver face (two vertices in one cluster, the third 10^5 away and almost in line) is
\* not determined in doubles.  With det ~ a_k L^k and |u|^2 ~ U L^(2m) (m = 1 for a vector between
\* clusters, 0 inside one) and 10^-18 = 100 L^-4 the test reads  a_k^2 L^e <= 100 U V W,
\* e = 2k - 2(m_u + m_v + m_w) + 4  (leading terms only: the tolerance is not sharp).
Coef(p, k) == IF k < 0 THEN 0 ELSE p[k + 1]
Between(u) == IF u[1][2] # 0 \/ u[2][2] # 0 \/ u[3][2] # 0 THEN 1 ELSE 0
Lead2(u) == LET c == Between(u) + 1 IN u[1][c] * u[1][c] + u[2][c] * u[2][c] + u[3][c] * u[3][c]
WBeyond(a, b, c, d) ==
    LET det == WVol(a, b, c, d)
        k == PDeg(det)
        ak2 == Coef(det, k) * Coef(det, k)
        u == WSub(b, a)  v == WSub(c, a)  w == WSub(d, a)
        Q == Lead2(u) * Lead2(v) * Lead2(w)
        e == 2 * k - 2 * (Between(u) + Between(v) + Between(w)) + 4
        coplanar == CASE e <= -2 -> TRUE
                      [] e = -1 -> Q >= 10 \/ ak2 <= 10000000 * Q
                      [] e = 0 -> ak2 <= 100 * Q
                      [] e = 1 -> ak2 <= 20 /\ 1000 * ak2 <= Q
                      [] OTHER -> FALSE
    IN PSign(det) > 0 /\ ~coplanar
WSpans3(P) == \E a \in 1..Len(P) : \E b \in (a+1)..Len(P) : \E c \in (b+1)..Len(P) : \E d \in (c+1)..Len(P) :
                  WSide(P[a], P[b], P[c], P[d]) # 0
WideHullClause(P, o) ==
    LET hv == o.hv  F == o.hf
        nV == Len(hv)
        V == [k \in 1..nV |-> IF hv[k] >= 0 /\ hv[k] < Len(P) THEN P[hv[k] + 1] ELSE P[1]]
        E == Edges(F)
        S == EdgesSorted(F)
        side(f, k) == WSide(V[F[f][1] + 1], V[F[f][2] + 1], V[F[f][3] + 1], P[k])
        pos(f) == {k \in 1..Len(P) : WBeyond(V[F[f][1] + 1], V[F[f][2] + 1], V[F[f][3] + 1], P[k])}
        neg(f) == {k \in 1..Len(P) : side(f, k) < 0}
    IN
    IF Len(F) = 0 \/ nV = 0 THEN "hull_is_empty"
    ELSE IF \E k \in 1..nV : hv[k] < 0 \/ hv[k] >= Len(P) THEN "hull_vertex_is_not_an_input_point"
    ELSE IF \E f \in 1..Len(F) : \E j \in 1..3 : F[f][j] < 0 \/ F[f][j] >= nV THEN "hull_face_index_out_of_range"
    ELSE IF ~Watertight(S) THEN "hull_not_watertight"
    ELSE IF ~WindingConsistent(E, S) THEN "hull_winding_inconsistent"
    ELSE IF \E f \in 1..Len(F) : pos(f) # {} /\ neg(f) = {} THEN "hull_face_wound_inward"
    ELSE IF \E f \in 1..Len(F) : pos(f) # {} THEN "hull_not_convex_input_outside_face_plane"
    ELSE IF ~o.wt THEN "hull_reports_is_watertight_false"
    ELSE IF ~o.wc THEN "hull_reports_is_winding_consistent_false"
    ELSE IF ~o.volpos THEN "hull_reports_volume_not_positive"
    ELSE IF ~o.cvx THEN "hull_reports_is_convex_false"
    ELSE "ok"

\* ------------------------------------------------------------ axis-aligned box (exact)
MinAx(P, a) == CHOOSE m \in {P[k][a] : k \in 1..Len(P)} : \A k \in 1..Len(P) : m <= P[k][a]
MaxAx(P, a) == CHOOSE m \in {P[k][a] : k \in 1..Len(P)} : \A k \in 1..Len(P) : m >= P[k][a]
IdK(d) == [r \in 1..d |-> [s \in 1..d |-> IF r = s THEN K ELSE 0]]
AabbClause(P, d, o) ==
    LET lo == [a \in 1..d |-> MinAx(P, a)]
        hi == [a \in 1..d |-> MaxAx(P, a)] IN
    IF o.offlat # "" THEN "aabb_value_off_the_lattice_" \o o.offlat
    ELSE IF o.lo # lo THEN "bounds_lower_is_not_the_minimum"
    ELSE IF o.hi # hi THEN "bounds_upper_is_not_the_maximum"
    ELSE IF o.ext # [a \in 1..d |-> hi[a] - lo[a]] THEN "extents_not_max_minus_min"
    ELSE IF o.hasbox /\ o.bext # [a \in 1..d |-> hi[a] - lo[a]] THEN "bounding_box_extents_not_max_minus_min"
    ELSE IF o.hasbox /\ o.c2 # [a \in 1..d |-> hi[a] + lo[a]] THEN "bounding_box_centre_not_the_midpoint"
    ELSE IF o.hasbox /\ o.rot # IdK(d) THEN "bounding_box_is_rotated"
    ELSE "ok"

\* ------------------------------------------------------------ minimal enclosing ball (exact)
\* a ball is [cd, cn, n2]: centre cn / cd (cd > 0), squared radius n2 / cd^2
D2(p, B) == LET d == Sub(Scale(B.cd, p), B.cn) IN Dot(d, d)
Inside(P, B) == \A k \in 1..Len(P) : D2(P[k], B) <= B.n2
Boundary(P, B) == {k \in 1..Len(P) : D2(P[k], B) = B.n2}
Normal(B) == LET g == GCD(GCD(B.cd, Abs(B.cn[1])), GCD(Abs(B.cn[2]), Abs(B.cn[3]))) IN
             [cd |-> B.cd \div g, cn |-> <<B.cn[1] \div g, B.cn[2] \div g, B.cn[3] \div g>>, n2 |-> B.n2 \div (g * g)]
\* diametral ball of two points
Ball2(a, b) == [cd |-> 2, cn |-> Add(a, b), n2 |-> Dot(Sub(a, b), Sub(a, b))]
\* circumball of a proper triangle in its plane:  centre - a = (|u|^2 (w x n) + |w|^2 (n x u)) / (2 |n|^2)
Ball3(a, b, c) ==
    LET u == Sub(b, a)  w == Sub(c, a)  n == Cross(u, w)
        num == Add(Scale(Dot(u, u), Cross(w, n)), Scale(Dot(w, w), Cross(n, u)))
        cd == 2 * Dot(n, n)
    IN [cd |-> cd, cn |-> Add(Scale(cd, a), num), n2 |-> Dot(num, num)]
\* its centre lies in the triangle iff no angle is obtuse
Acute3(a, b, c) == /\ Cross(Sub(b, a), Sub(c, a)) # <<0, 0, 0>>
                   /\ Dot(Sub(b, a), Sub(c, a)) >= 0 /\ Dot(Sub(a, b), Sub(c, b)) >= 0 /\ Dot(Sub(a, c), Sub(b, c)) >= 0
\* circumball of a proper tetrahedron: centre - a = (q1 (u2 x u3) + q2 (u3 x u1) + q3 (u1 x u2)) / (2 D)
Num4(a, b, c, d) ==
    LET u1 == Sub(b, a)  u2 == Sub(c, a)  u3 == Sub(d, a) IN
    Add(Add(Scale(Dot(u1, u1), Cross(u2, u3)), Scale(Dot(u2, u2), Cross(u3, u1))), Scale(Dot(u3, u3), Cross(u1, u2)))
Ball4(a, b, c, d) ==
    LET D == Vol(a, b, c, d)
        s == IF D > 0 THEN 1 ELSE -1
        num == Scale(s, Num4(a, b, c, d))
        cd == 2 * s * D
    IN [cd |-> cd, cn |-> Add(Scale(cd, a), num), n2 |-> Dot(num, num)]
\* its centre lies in the tetrahedron iff all four barycentric coordinates are >= 0
\*   lambda_k = num . (u_{k+1} x u_{k+2}) / (2 D^2),  lambda_0 = 1 - sum
Inside4(a, b, c, d) ==
    LET D == Vol(a, b, c, d)
        u1 == Sub(b, a)  u2 == Sub(c, a)  u3 == Sub(d, a)
        num == Num4(a, b, c, d)
        m1 == Dot(num, Cross(u2, u3))  m2 == Dot(num, Cross(u3, u1))  m3 == Dot(num, Cross(u1, u2))
    IN D # 0 /\ m1 >= 0 /\ m2 >= 0 /\ m3 >= 0 /\ m1 + m2 + m3 <= 2 * D * D
Idx(P) == 1..Len(P)
Cand2(P) == {Normal(Ball2(P[t[1]], P[t[2]])) : t \in {t \in Idx(P) \X Idx(P) :
                t[1] < t[2] /\ P[t[1]] # P[t[2]] /\ Inside(P, Ball2(P[t[1]], P[t[2]]))}}
Cand3(P) == {Normal(Ball3(P[t[1]], P[t[2]], P[t[3]])) : t \in {t \in Idx(P) \X Idx(P) \X Idx(P) :
                /\ t[1] < t[2] /\ t[2] < t[3] /\ Acute3(P[t[1]], P[t[2]], P[t[3]])
                /\ Inside(P, Ball3(P[t[1]], P[t[2]], P[t[3]]))}}
Cand4(P) == {Normal(Ball4(P[t[1]], P[t[2]], P[t[3]], P[t[4]])) : t \in {t \in Idx(P) \X Idx(P) \X Idx(P) \X Idx(P) :
                /\ t[1] < t[2] /\ t[2] < t[3] /\ t[3] < t[4] /\ Inside4(P[t[1]], P[t[2]], P[t[3]], P[t[4]])
                /\ Inside(P, Ball4(P[t[1]], P[t[2]], P[t[3]], P[t[4]]))}}
MEB(P) == LET c2 == Cand2(P) IN
          IF c2 # {} THEN CHOOSE B \in c2 : TRUE
          ELSE LET c3 == Cand3(P) IN
               IF c3 # {} THEN CHOOSE B \in c3 : TRUE
               ELSE CHOOSE B \in Cand4(P) : TRUE

\* general position, by the in-sphere / in-circle determinants
Lift4(p, e) == LET d == Sub(p, e) IN <<d[1], d[2], d[3], Dot(d, d)>>
InSphereDet(a, b, c, d, e) ==      \* = 0 iff the five points lie on a common sphere or plane
    LET r1 == Lift4(a, e)  r2 == Lift4(b, e)  r3 == Lift4(c, e)  r4 == Lift4(d, e)
        m(x, y, z) == Det3(<<x[1], x[2], x[3]>>, <<y[1], y[2], y[3]>>, <<z[1], z[2], z[3]>>)
    IN - r1[4] * m(r2, r3, r4) + r2[4] * m(r1, r3, r4) - r3[4] * m(r1, r2, r4) + r4[4] * m(r1, r2, r3)
Coplanar5(a, b, c, d, e) == /\ Vol(a, b, c, d) = 0 /\ Vol(a, b, c, e) = 0 /\ Vol(a, b, d, e) = 0
                            /\ Vol(a, c, d, e) = 0 /\ Vol(b, c, d, e) = 0
NoFiveCospherical(P) ==
    \A a \in Idx(P) : \A b \in (a+1)..Len(P) : \A c \in (b+1)..Len(P) : \A d \in (c+1)..Len(P) : \A e \in (d+1)..Len(P) :
        InSphereDet(P[a], P[b], P[c], P[d], P[e]) # 0 \/ Coplanar5(P[a], P[b], P[c], P[d], P[e])
\* planar inputs (z = 0): = 0 iff the four points lie on a common circle or line
InCircleDet(a, b, c, d) ==
    LET r(p) == LET q == Sub(p, d) IN <<q[1], q[2], Dot(q, q)>> IN Det3(r(a), r(b), r(c))
Collinear4(a, b, c, d) == /\ Cross(Sub(b, a), Sub(c, a)) = <<0, 0, 0>> /\ Cross(Sub(b, a), Sub(d, a)) = <<0, 0, 0>>
                          /\ Cross(Sub(c, a), Sub(d, a)) = <<0, 0, 0>> /\ Cross(Sub(c, b), Sub(d, b)) = <<0, 0, 0>>
NoFourCocircular(P) ==
    \A a \in Idx(P) : \A b \in (a+1)..Len(P) : \A c \in (b+1)..Len(P) : \A d \in (c+1)..Len(P) :
        InCircleDet(P[a], P[b], P[c], P[d]) # 0 \/ Collinear4(P[a], P[b], P[c], P[d])
Distinct(P) == Cardinality(Range(P)) = Len(P)
GeneralPosition(P, d) == Distinct(P) /\ IF d = 3 THEN NoFiveCospherical(P) ELSE NoFourCocircular(P)

\* fixed-point containment of the difference vector d in the ball of radius r (units 1/K), overflow-proof:
\* the coarsening only adds slack (no false alarm)
RECURSIVE Within(_, _)
Within(d, r) ==
    IF Abs(d[1]) > r \/ Abs(d[2]) > r \/ Abs(d[3]) > r THEN FALSE
    ELSE IF r <= 26000 THEN Dot(d, d) <= r * r
    ELSE Within(<<Abs(d[1]) \div 10, Abs(d[2]) \div 10, Abs(d[3]) \div 10>>, r \div 10 + 2)

ToStr1(n) == CASE n = 1 -> "1" [] n = 2 -> "2" [] n = 3 -> "3" [] n = 4 -> "4" [] OTHER -> "5plus"

\* one observation against the exact ball M; gp = inputs in general position
SphereObs(P, d, M, gp, o) ==
    LET nb == Cardinality(Boundary(P, M)) IN
    IF o.snap THEN
        LET B == [cd |-> o.cd, cn |-> Lift(o.cn), n2 |-> o.n2] IN
        IF ~Inside(P, B) THEN "sphere_does_not_contain_an_input"
        ELSE IF gp /\ B # M THEN "sphere_not_minimal_boundary_" \o ToStr1(nb)
        ELSE "ok"
    ELSE
        LET C == Lift(o.C)  R == o.R
            df(k) == Sub(Scale(K, P[k]), C) IN
        IF \E k \in 1..Len(P) : ~Within(df(k), R + EPS) THEN "sphere_does_not_contain_an_input_fx"
        ELSE IF gp /\ ( \/ \E a \in 1..3 : Abs(C[a]) > 100000 \/ Abs(C[a] * M.cd - M.cn[a] * K) > EPS * M.cd
                        \/ (R > 2 * EPS /\ \A k \in 1..Len(P) : Within(df(k), R - 2 * EPS)) )
             THEN "sphere_not_minimal_fx_boundary_" \o ToStr1(nb)
        ELSE "ok"

FirstBad(r) == LET bad == {k \in 1..Len(r) : r[k] # "ok"} IN
               IF bad = {} THEN "ok" ELSE r[CHOOSE k \in bad : \A j \in bad : k <= j]

SphereClause(P, d, obs) ==
    LET M == MEB(P)
        gp == GeneralPosition(P, d)
        r == FirstBad([k \in 1..Len(obs) |-> LET x == SphereObs(P, d, M, gp, obs[k]) IN
                          IF x = "ok" THEN "ok" ELSE obs[k].api \o ":" \o x])
    IN IF r # "ok" THEN r
       ELSE IF gp THEN "note_minimal_ball_decided_boundary_" \o ToStr1(Cardinality(Boundary(P, M)))
       ELSE "note_not_general_position_containment_only"

\* ------------------------------------------------------------ rigid frames (fixed point)
Row3(W, r) == <<W[r][1], W[r][2], W[r][3]>>
Shrink(v) == <<v[1] \div 10, v[2] \div 10, v[3] \div 10>>
Orthonormal(W) ==
    /\ \A r \in 1..3 : \A s \in 1..3 : Abs(W[r][s]) <= K + EPS
    /\ \A r \in 1..3 : \A s \in 1..3 : Abs(Dot(Row3(W, r), Row3(W, s)) - (IF r = s THEN K * K ELSE 0)) <= EPSR
DetPositive(W) == Det3(Shrink(Row3(W, 1)), Shrink(Row3(W, 2)), Shrink(Row3(W, 3))) > 0
Transform(W, t, p) == <<Dot(Row3(W, 1), p) + t[1], Dot(Row3(W, 2), p) + t[2], Dot(Row3(W, 3), p) + t[3]>>
MinOf(S) == CHOOSE m \in S : \A x \in S : m <= x
MaxOf(S) == CHOOSE m \in S : \A x \in S : m >= x

\* e = containment slack of the record (fixed-point units): EPS for {0..3}^3, larger for {0..7}^3
ObbObs(P, o) ==
    LET W == LiftM(o.W)  t == Lift(o.t)  ext == Lift(o.ext)  e == o.eps
        TV == [k \in 1..Len(P) |-> Transform(W, t, P[k])]
        ax(a) == {TV[k][a] : k \in 1..Len(P)} IN
    IF ~Orthonormal(W) THEN "obb_transform_not_orthonormal"
    ELSE IF ~DetPositive(W) THEN "obb_transform_is_a_reflection"
    ELSE IF o.hasnew /\ \E k \in 1..Len(P) : \E a \in 1..3 : Abs(Lift(o.newv[k])[a] - TV[k][a]) > e
         THEN "apply_obb_vertices_not_moved_by_its_matrix"
    ELSE IF \E k \in 1..Len(P) : \E a \in 1..3 : 2 * Abs(TV[k][a]) > ext[a] + 2 * e
         THEN "obb_input_outside_box_of_reported_extents"
    ELSE IF \E a \in 1..3 : Abs(MinOf(ax(a)) + MaxOf(ax(a))) > 2 * e THEN "obb_box_not_centred_at_origin"
    ELSE "ok"

\* normalised form for sets scaled differently per axis: u = 10^6 * moved vertex / half extent
UN == 1000000
UEPS == 100
ObbNormObs(P, o) ==
    LET W == o.W  u == o.u
        ax(a) == {u[k][a] : k \in 1..Len(u)} IN
    IF ~Orthonormal(W) THEN "obb_transform_not_orthonormal"
    ELSE IF ~DetPositive(W) THEN "obb_transform_is_a_reflection"
    ELSE IF Len(u) # Len(P) THEN "apply_obb_changed_the_number_of_vertices"
    ELSE IF \E k \in 1..Len(u) : \E a \in 1..3 : Abs(u[k][a]) > UN + UEPS
         THEN "obb_input_outside_box_of_reported_extents"
    ELSE IF \E a \in 1..3 : Abs(MinOf(ax(a)) + MaxOf(ax(a))) > 2 * UEPS THEN "obb_box_not_centred_at_origin"
    ELSE "ok"

CylObs(P, o) ==
    LET W == o.W  t == o.t  e == o.eps
        TV == [k \in 1..Len(P) |-> Transform(W, t, P[k])] IN
    IF ~Orthonormal(W) THEN "cylinder_transform_not_orthonormal"
    ELSE IF ~DetPositive(W) THEN "cylinder_transform_is_a_reflection"
    ELSE IF o.r < 0 \/ o.h < 0 THEN "cylinder_negative_size"
    ELSE IF \E k \in 1..Len(P) : ~Within(<<TV[k][1], TV[k][2], 0>>, o.r + e) THEN "cylinder_input_beyond_radius"
    ELSE IF \E k \in 1..Len(P) : 2 * Abs(TV[k][3]) > o.h + 2 * e THEN "cylinder_input_beyond_half_height"
    ELSE "ok"

\* larger sets: containment in the reported ball and tightness (some input near its boundary), fixed point
BallObs(P, o) ==
    LET C == Lift(o.C)  R == o.R  e == o.eps
        df(k) == Sub(Scale(K, P[k]), C) IN
    IF R < 0 THEN "sphere_negative_radius"
    ELSE IF \E k \in 1..Len(P) : ~Within(df(k), R + e) THEN "sphere_does_not_contain_an_input_fx"
    ELSE IF R > 4 * e /\ \A k \in 1..Len(P) : Within(df(k), R - 4 * e) THEN "sphere_touches_no_input_fx"
    ELSE "ok"

Prefixed(obs, F(_)) == FirstBad([k \in 1..Len(obs) |-> LET x == F(obs[k]) IN
                                    IF x = "ok" THEN "ok" ELSE obs[k].api \o ":" \o x])

\* ============================================================== validator
Clause(c) ==
    LET P == IF c.kind = "hullw" THEN c.pts ELSE LiftAll(c.pts) IN
    CASE c.kind = "hull" -> Prefixed(c.obs, LAMBDA o : HullClause(P, o))
      [] c.kind = "hullw" -> Prefixed(c.obs, LAMBDA o : WideHullClause(P, o))
      [] c.kind = "hullb" -> Prefixed(c.obs, LAMBDA o : HullBigClause(P, o))
      [] c.kind = "obbf" -> Prefixed(c.obs, LAMBDA o : ObbObs(P, o))
      [] c.kind = "aabbf" -> Prefixed(c.obs, LAMBDA o : AabbClause(c.pts, c.dim, o))
      [] c.kind = "obbn" -> Prefixed(c.obs, LAMBDA o : ObbNormObs(P, o))
      [] c.kind = "ballc" -> Prefixed(c.obs, LAMBDA o : BallObs(P, o))
      [] c.kind = "aabb" -> Prefixed(c.obs, LAMBDA o : AabbClause(c.pts, c.dim, o))
      [] c.kind = "sphere" -> SphereClause(P, c.dim, c.obs)
      [] c.kind = "obb" -> Prefixed(c.obs, LAMBDA o : ObbObs(P, o))
      [] c.kind = "cyl" -> Prefixed(c.obs, LAMBDA o : CylObs(P, o))
      [] OTHER -> "unknown_kind"

Init == i = 1
Next == i < Len(Cases) /\ i' = i + 1
Report == LET c == Cases[i]  cl == IF c.exc # "" THEN "raised_" \o c.exc ELSE Clause(c)
          IN IF cl # "ok" THEN PrintT(<<"REJECT", c.id, cl>>) ELSE TRUE

\* the inputs satisfy the hypothesis of the property (a failure is a defect of the harness)
InputSane ==
    LET c == Cases[i] IN
    /\ Len(c.sce) = c.dim /\ Len(c.off) = c.dim
    /\ \A a \in 1..c.dim : c.sce[a] \in -30..70 /\ c.off[a] \in -1073741824..1073741824
    \* kinds that are only invariant under a common scale need equal exponents
    /\ c.kind \in {"obb", "obbf", "sphere", "cyl", "ballc"} => \A a \in 1..c.dim : c.sce[a] = c.sce[1]
    /\ c.kind \in {"obb", "obbf", "cyl", "ballc"} => \A k \in 1..Len(c.obs) : c.obs[k].eps = (IF c.grid = 3 THEN EPS ELSE 25)
    /\ c.grid \in {3, 7} /\ (c.grid = 7 => c.kind \in {"hullb", "aabb", "obb", "cyl", "ballc"} /\ c.dim = 3)
    /\ IF c.kind = "hullw" THEN
           /\ c.dim = 3 /\ c.L = 100000 /\ Len(c.pts) >= 4 /\ Len(c.pts) <= 32
           /\ \A k \in 1..Len(c.pts) : \A a \in 1..3 : c.pts[k][1][a] \in 0..2 /\ c.pts[k][2][a] \in 0..3
           /\ WSpans3(c.pts)
       ELSE LET P == LiftAll(c.pts) IN
           /\ c.dim \in {2, 3} /\ Len(c.pts) <= (IF c.grid = 7 THEN 64 ELSE 16)
           /\ \A k \in 1..Len(c.pts) : Len(c.pts[k]) = c.dim /\ \A a \in 1..c.dim : c.pts[k][a] \in 0..c.grid
           /\ IF c.kind \in {"obbf", "aabbf"}
              THEN c.dim = 3 /\ c.grid = 3 /\ Len(c.pts) >= 3 /\ Spans2(P) /\ ~Spans3(P)     \* flat: spans a plane only
              ELSE Len(c.pts) >= c.dim + 1 /\ (IF c.dim = 3 THEN Spans3(P) ELSE Spans2(P))

\* laws of the reference itself on the recorded inputs flagged c.sane (never a finding about trimesh)
RefSane ==
    LET c == Cases[i]  P == IF c.kind = "hullw" THEN <<>> ELSE LiftAll(c.pts) IN
    c.sane =>
      CASE c.kind = "hull" ->
             LET ext == {k \in Idx(P) : Extreme(P, k)} IN
             /\ Cardinality({P[k] : k \in ext}) >= 4                     \* a solid has at least four corners
             /\ \A k \in Idx(P) : InConv(P[k], P, ext)                   \* and is the hull of its corners
        [] c.kind = "sphere" ->
             LET all == Cand2(P) \cup Cand3(P) \cup Cand4(P)  M == MEB(P) IN
             /\ Cardinality(all) = 1                                     \* the minimal ball is unique
             /\ M \in all /\ Inside(P, M) /\ Cardinality(Boundary(P, M)) >= 2
             /\ M.cd > 0 /\ M.cd <= 2000
        [] c.kind = "hullw" ->        \* the polynomial signs are decided by their leading coefficient
             \A a \in 1..Len(c.pts) : \A b \in (a+1)..Len(c.pts) : \A d \in (b+1)..Len(c.pts) :
                 PSmall(WVol(c.pts[1], c.pts[a], c.pts[b], c.pts[d]))
        [] OTHER -> TRUE
=============================================================================
