----------------------------- MODULE RayProx -----------------------------
(***************************************************************************)
(* Reference semantics of ray and proximity queries against a triangle     *)
(* mesh (property C12) and a batch validator of recorded calls of          *)
(*   RayMeshIntersector (ray_triangle and ray_pyembree):                   *)
(*     intersects_location (multiple_hits True / False), intersects_id,    *)
(*     intersects_first, intersects_any, contains_points                   *)
(*   proximity.closest_point / closest_point_naive, mesh.nearest           *)
(*     .on_surface / .signed_distance / .vertex                            *)
(*                                                                         *)
(* Everything is "test every triangle" in exact integer arithmetic.        *)
(* A mesh is a list of lattice vertices and faces (meshes.ndjson, one      *)
(* record per mesh, referred to by index m).  A ray is  o + t d  with      *)
(* o = O / k (O an integer vector, k in {1, 2, 4}), d an integer vector;   *)
(* a query point is p = P / k (k = 4).                                     *)
(*                                                                         *)
(* Ray against triangle (a, b, c), e1 = b - a, e2 = c - a, n = e1 x e2,    *)
(* S = O - k a, by Cramer's rule on  u e1 + v e2 - t d = o - a :           *)
(*     den = k (d . n)          (sign-normalised to den > 0)               *)
(*     u = det[S, e2, d] / den,  v = det[e1, S, d] / den,  w = 1 - u - v   *)
(*     t = -(S . n) / den                                                  *)
(* so every comparison is a sign test on integers.                         *)
(*                                                                         *)
(* General position (margin 1/M, M = 64).  A triangle is                   *)
(*    "hit"   when t >= 1/M and u, v, w >= 1/M                             *)
(*    "miss"  when t <= -1/M, or one of u, v, w < -1/M, or the ray is      *)
(*            parallel to its plane and off it (or in it but clear of the  *)
(*            triangle)                                                    *)
(*    "deg"   otherwise: the ray touches the closed triangle (widened by   *)
(*            the margin) without crossing its interior by the margin.     *)
(* A ray with a "deg" triangle, or with two hits at the same t, is         *)
(* excluded from the property (SKIP_degenerate_ray): the property speaks   *)
(* of rays a fixed margin away from edges, vertices and the surface.       *)
(* On a ray in general position every touch of a closed triangle is a      *)
(* "hit", so soundness + completeness + equal counts = exact agreement.    *)
(*                                                                         *)
(* Distance of p to a triangle: if the foot of the perpendicular lies in   *)
(* the closed triangle, (n' . (p - a))^2 / (n' . n') (n' the primitive     *)
(* normal); otherwise the least of the three segment distances.  This is   *)
(* the definition, not the region scheme of "Real Time Collision           *)
(* Detection" that the implementation follows.  A reported closest point   *)
(* q on triangle T is judged by the variational characterisation of the    *)
(* projection on a convex set:  q in T  and  (p - q) . (x - q) <= 0  for   *)
(* the three corners x of T - ties between faces or equidistant points     *)
(* are all accepted.                                                       *)
(*                                                                         *)
(* Containment: parity of the hit count along the first direction of       *)
(* ParityDirs that is in general position for the point.                   *)
(* Sign of the signed distance: positive inside, negative outside (the     *)
(* docstring of proximity.signed_distance).                                *)
(*                                                                         *)
(* The harness also runs the same scene translated far from the origin by  *)
(* an exact integer offset (mesh, ray origins, query points alike) and     *)
(* subtracts the offset from every returned coordinate: translation does   *)
(* not change any answer, so such records are judged here in the lattice   *)
(* frame like the others (field pl only names the placement).              *)
(*                                                                         *)
(* Likewise (audit round) for the scene scaled by a power of two, for a    *)
(* direction vector multiplied by a power of two (the same ray), for other *)
(* entry points reaching the same code and for queries made after the mesh *)
(* was moved: none of these changes an answer, the harness undoes the      *)
(* exact map and the record is judged here unchanged.  A mesh may carry    *)
(* vertices no face refers to: they count for the nearest-vertex query     *)
(* (which answers over the vertex list) and for nothing else.              *)
(*                                                                         *)
(* The harness sends integers only.  A float the implementation returned   *)
(* is snapped to the nearest fraction with a bounded denominator and the   *)
(* residual is tested; a value that does not snap arrives with a           *)
(* non-empty field "offlattice" and is rejected.                           *)
(***************************************************************************)
EXTENDS Integers, Sequences, FiniteSets, TLC, Json

Cases == ndJsonDeserialize("cases.ndjson")
Meshes == ndJsonDeserialize("meshes.ndjson")
VARIABLE i

M == 64          \* rays: margin 1/M on t and on the barycentric coordinates
PM == 8          \* query points: at least 1/PM away from the surface

\* ------------------------------------------------------------ integers, vectors, rationals
Abs(x) == IF x < 0 THEN -x ELSE x
RECURSIVE GCD(_, _)
GCD(a, b) == IF b = 0 THEN a ELSE GCD(b, a % b)
Min(S) == CHOOSE m \in S : \A x \in S : m <= x

Zero3 == <<0, 0, 0>>
Sub(p, q) == <<p[1] - q[1], p[2] - q[2], p[3] - q[3]>>
Scale(k, p) == <<k * p[1], k * p[2], k * p[3]>>
Dot(u, v) == u[1] * v[1] + u[2] * v[2] + u[3] * v[3]
Cross(u, v) == <<u[2] * v[3] - u[3] * v[2], u[3] * v[1] - u[1] * v[3], u[1] * v[2] - u[2] * v[1]>>
Det3(a, b, c) == Dot(a, Cross(b, c))
GCD3(v) == GCD(GCD(Abs(v[1]), Abs(v[2])), Abs(v[3]))
Prim(v) == LET g == GCD3(v) IN IF g = 0 THEN v ELSE <<v[1] \div g, v[2] \div g, v[3] \div g>>
SumAbs(v) == Abs(v[1]) + Abs(v[2]) + Abs(v[3])

\* non-negative rationals <<num, den>>, den > 0, in lowest terms
RNorm(x, y) == LET g == GCD(Abs(x), y) IN <<x \div g, y \div g>>
RLess(a, b) == a[1] * b[2] < b[1] * a[2]
RMin(a, b) == IF RLess(b, a) THEN b ELSE a

\* ------------------------------------------------------------ meshes
\* per face: corners, edge vectors, normal n = e1 x e2, primitive normal np, pn = np . n, npn = np . np
FaceGeo(V, f) ==
    LET a == V[f[1] + 1]  b == V[f[2] + 1]  c == V[f[3] + 1]
        e1 == Sub(b, a)  e2 == Sub(c, a)  n == Cross(e1, e2)  np == Prim(n) IN
    [a |-> a, b |-> b, c |-> c, e1 |-> e1, e2 |-> e2, n |-> n, np |-> np,
     pn |-> Dot(np, n), npn |-> Dot(np, np)]
RECURSIVE FacesGeo(_, _, _)
FacesGeo(V, F, k) == IF k = 0 THEN <<>> ELSE Append(FacesGeo(V, F, k - 1), FaceGeo(V, F[k]))
RECURSIVE AllGeo(_)
AllGeo(k) == IF k = 0 THEN <<>>
             ELSE Append(AllGeo(k - 1), FacesGeo(Meshes[k].verts, Meshes[k].faces, Len(Meshes[k].faces)))
Geo == AllGeo(Len(Meshes))          \* evaluated once

\* A face without area (n = 0; round 2): three distinct collinear corners, the "sliver" a T-junction leaves on
\* an edge.  It cannot be crossed through its interior; as a point set it is the segment spanned by its
\* corners.  MeshSane demands that it lies on an edge of a face with area, so that a ray touching it touches
\* that edge (and is degenerate already) and it is never strictly nearer than that face.
Degenerate(g) == g.n = Zero3
OnSeg(p, x, y) == LET e == Sub(y, x)  w == Sub(p, x) IN
                  Cross(w, e) = Zero3 /\ Dot(w, e) >= 0 /\ Dot(w, e) <= Dot(e, e)
\* closed and consistently wound: every directed edge of the faces with area is matched by its reverse, with
\* multiplicity
DirEdges(G0) == LET G == SelectSeq(G0, LAMBDA g : ~Degenerate(g)) IN
                [k \in 1..(3 * Len(G)) |->
                   LET g == G[(k - 1) \div 3 + 1]  j == (k - 1) % 3 IN
                   IF j = 0 THEN <<g.a, g.b>> ELSE IF j = 1 THEN <<g.b, g.c>> ELSE <<g.c, g.a>>]
Closed(G) == LET E == DirEdges(G) IN
             \A k \in 1..Len(E) :
                 Cardinality({j \in 1..Len(E) : E[j] = E[k]})
                     = Cardinality({j \in 1..Len(E) : E[j] = <<E[k][2], E[k][1]>>})
RECURSIVE Vol6(_, _)
Vol6(G, k) == IF k = 0 THEN 0 ELSE Vol6(G, k - 1) + Det3(G[k].a, G[k].b, G[k].c)

\* ------------------------------------------------------------ one ray against one triangle
\* a ray lying in the plane of the triangle is clear of it when the triangle is strictly on one
\* side of the ray's line, or entirely behind the origin by the margin (conservative otherwise)
CoplanarClear(g, O, k, d) ==
    LET rel(x) == Sub(Scale(k, x), O)
        side(x) == Dot(g.np, Cross(rel(x), d))
        behind(x) == M * Dot(d, rel(x)) <= -(k * Dot(d, d))
        X == {g.a, g.b, g.c} IN
    \/ \A x \in X : side(x) > 0
    \/ \A x \in X : side(x) < 0
    \/ \A x \in X : behind(x)

FaceStat(g, O, k, d) ==
    LET S == Sub(O, Scale(k, g.a))
        D0 == Dot(d, g.n)
        sg == IF D0 < 0 THEN -1 ELSE 1
        den == sg * k * D0
        nu == sg * Det3(S, g.e2, d)
        nv == sg * Det3(g.e1, S, d)
        nw == den - nu - nv
        sn == Dot(S, g.n)
        nt == -(sg * sn)
        st == IF Degenerate(g) THEN "miss"
              ELSE IF D0 = 0 THEN (IF sn # 0 \/ CoplanarClear(g, O, k, d) THEN "miss" ELSE "deg")
              ELSE IF M * nt <= -den THEN "miss"
              ELSE IF M * nu < -den \/ M * nv < -den \/ M * nw < -den THEN "miss"
              ELSE IF M * nt >= den /\ M * nu >= den /\ M * nv >= den /\ M * nw >= den THEN "hit"
              ELSE "deg" IN
    [st |-> st, nt |-> nt, den |-> den, inplane |-> (~Degenerate(g) /\ D0 = 0 /\ sn = 0)]

RECURSIVE Stats(_, _, _, _, _)
Stats(G, n, O, k, d) == IF n = 0 THEN <<>> ELSE Append(Stats(G, n - 1, O, k, d), FaceStat(G[n], O, k, d))

Before(x, y) == x.nt * y.den < y.nt * x.den           \* t_x < t_y  (both den > 0)
SameT(x, y) == x.nt * y.den = y.nt * x.den

\* Hits(mesh, o, d) = v.hits (the faces; their parameters are v.fs[f].nt / v.fs[f].den)
View(G, O, k, d) ==
    LET fs == Stats(G, Len(G), O, k, d)
        H == {f \in 1..Len(G) : fs[f].st = "hit"} IN
    [fs |-> fs, hits |-> H,
     deg |-> (\E f \in 1..Len(G) : fs[f].st = "deg")
             \/ (\E f \in H : \E g \in H : f # g /\ SameT(fs[f], fs[g]))]
Nearest(v) == CHOOSE f \in v.hits : \A g \in v.hits : ~Before(v.fs[g], v.fs[f])

\* ------------------------------------------------------------ judging reported hits
\* point N / q in the closed triangle g
InClosedTri(g, N, q) ==
    LET V == Sub(N, Scale(q, g.a))
        bc == Dot(g.np, Cross(g.e1, V))
        bb == Dot(g.np, Cross(V, g.e2)) IN
    IF Degenerate(g)
    THEN \E x \in {g.a, g.b, g.c} : \E y \in {g.a, g.b, g.c} :
             x # y /\ OnSeg(N, Scale(q, x), Scale(q, y))
    ELSE Dot(g.np, V) = 0 /\ bb >= 0 /\ bc >= 0 /\ q * g.pn - bb - bc >= 0

\* reported hit h = [f |-> face (0-based), n |-> numerators, q |-> common denominator, offlattice]
HitSound(G, O, k, d, h) ==
    IF h.offlattice # "" THEN "hit_location_offlattice"
    ELSE IF h.f < 0 \/ h.f >= Len(G) THEN "hit_face_index_out_of_range"
    ELSE LET V == Sub(Scale(k, h.n), Scale(h.q, O)) IN          \* k q (location - o)
         IF Cross(V, d) # Zero3 \/ Dot(V, d) <= 0 THEN "hit_not_on_ray_ahead_of_origin"
         ELSE IF ~InClosedTri(G[h.f + 1], h.n, h.q) THEN "hit_not_on_reported_triangle"
         ELSE "ok"
HitsSound(G, O, k, d, L) ==
    LET bad == {j \in 1..Len(L) : HitSound(G, O, k, d, L[j]) # "ok"} IN
    IF bad = {} THEN "ok" ELSE HitSound(G, O, k, d, L[Min(bad)])

Plus1(s) == {s[j] + 1 : j \in 1..Len(s)}
HitFaces(L) == {L[j].f + 1 : j \in 1..Len(L)}

\* Named deviation EmbreeMultiHitCap: the ray crosses more than HitCap triangles and the multi-hit query
\* returned exactly the HitCap nearest crossings and nothing else (every reported hit is sound, see s1) - the
\* silent default max_hits = 20 of the embree wrapper's intersects_id, which intersects_location and
\* contains_points cannot raise.  Decided from the input and the shape of the answer alone.
HitCap == 20
Truncated(v, L) ==
    LET H == v.hits  R == HitFaces(L) IN
    /\ Cardinality(H) > HitCap /\ Len(L) = HitCap /\ Cardinality(R) = HitCap /\ R \subseteq H
    /\ \A f \in R : \A g \in H \ R : Before(v.fs[f], v.fs[g])

\* engine observation e:
\*   locm / loc1   intersects_location(multiple_hits = True / False) for this ray
\*   idm / id1     intersects_id(multiple_hits = True / False): faces
\*   first         intersects_first (-1: none)      any   intersects_any
\* Named deviation CoplanarRayPhantomHit: a first-hit query names a triangle whose supporting plane
\* contains the ray although the ray is clear of the triangle (it is not degenerate) - seen with the
\* float32 embree engine; kept apart so that the harness can attribute it to a known finding.
EngClause(G, c, v, e) ==
    LET O == c.o  k == c.k  d == c.d  H == v.hits
        s1 == HitsSound(G, O, k, d, e.locm)
        s2 == HitsSound(G, O, k, d, e.loc1)
        phantom(f) == f >= 0 /\ f < Len(G) /\ v.fs[f + 1].inplane IN
    IF s1 # "ok" THEN "multi:" \o s1
    ELSE IF Truncated(v, e.locm) THEN "multi:crossed_triangles_missed_beyond_the_first_20"
    ELSE IF ~(H \subseteq HitFaces(e.locm)) THEN "multi:crossed_triangle_missed"
    ELSE IF Len(e.locm) # Cardinality(H) THEN "multi:hit_count_differs_from_crossings"
    ELSE IF s2 # "ok" THEN "first:" \o s2
    ELSE IF H = {} /\ Len(e.loc1) # 0 THEN "first:hit_without_crossing"
    ELSE IF H # {} /\ Len(e.loc1) = 0 THEN "first:crossed_triangle_missed"
    ELSE IF Len(e.loc1) > 1 THEN "first:more_than_one_hit_for_one_ray"
    ELSE IF H # {} /\ e.loc1[1].f + 1 # Nearest(v) THEN "first:hit_is_not_the_nearest"
    ELSE IF Plus1(e.idm) # H \/ Len(e.idm) # Cardinality(H) THEN "intersects_id:faces_differ_from_crossings"
    ELSE IF Plus1(e.id1) # (IF H = {} THEN {} ELSE {Nearest(v)}) \/ Len(e.id1) > 1
         THEN (IF Len(e.id1) = 1 /\ phantom(e.id1[1]) THEN "intersects_id:phantom_hit_coplanar_triangle"
               ELSE "intersects_id:first_is_not_the_nearest")
    ELSE IF e.first # (IF H = {} THEN -1 ELSE Nearest(v) - 1)
         THEN (IF phantom(e.first) THEN "intersects_first:phantom_hit_coplanar_triangle"
               ELSE "intersects_first:not_the_nearest")
    ELSE IF e.any # (H # {}) THEN "intersects_any:wrong"
    ELSE "ok"

RayClause(c) ==
    LET G == Geo[c.m]  v == View(G, c.o, c.k, c.d)
        bad == {j \in 1..Len(c.eng) : EngClause(G, c, v, c.eng[j]) # "ok"} IN
    IF v.deg THEN "SKIP_degenerate_ray"
    ELSE IF c.exc # "" THEN "raised_" \o c.exc
    ELSE IF bad = {} THEN "ok"
    ELSE LET j == Min(bad) IN c.eng[j].name \o ":" \o EngClause(G, c, v, c.eng[j])

\* ------------------------------------------------------------ containment
ParityDirs == << <<1, 0, 0>>, <<0, 1, 0>>, <<0, 0, 1>>, <<-1, 0, 0>>, <<0, -1, 0>>, <<0, 0, -1>>,
                 <<1, 2, 3>>, <<2, -1, 3>>, <<-3, 1, 2>>, <<1, 3, -2>>, <<-1, -2, -3>>, <<3, 2, 1>> >>
\* index of the first direction from position j on that is in general position for the point (0: none)
RECURSIVE FirstClear(_, _, _, _)
FirstClear(G, P, k, j) ==
    IF j > Len(ParityDirs) THEN 0
    ELSE IF ~View(G, P, k, ParityDirs[j]).deg THEN j
    ELSE FirstClear(G, P, k, j + 1)
OddAlong(G, P, k, j) == Cardinality(View(G, P, k, ParityDirs[j]).hits) % 2 = 1
\* "in" / "out" / "unknown"
Inside(G, P, k) ==
    LET j == FirstClear(G, P, k, 1) IN
    IF j = 0 THEN "unknown" ELSE IF OddAlong(G, P, k, j) THEN "in" ELSE "out"

\* ------------------------------------------------------------ distance to the surface
\* squared distance of p = P / k to the segment [x, y], x # y
SegDist2(x, y, P, k) ==
    LET e == Sub(y, x)  g == GCD3(e)  ep == Prim(e)
        W == Sub(P, Scale(k, x))
        al == Dot(W, ep)  L == Dot(ep, ep) IN
    IF al <= 0 THEN RNorm(Dot(W, W), k * k)
    ELSE IF al >= k * g * L THEN LET W2 == Sub(P, Scale(k, y)) IN RNorm(Dot(W2, W2), k * k)
    ELSE RNorm(Dot(W, W) * L - al * al, k * k * L)

TriDist2(g, P, k) ==
    LET W == Sub(P, Scale(k, g.a))
        bc == Dot(g.np, Cross(g.e1, W))
        bb == Dot(g.np, Cross(W, g.e2))
        ba == k * g.pn - bb - bc IN
    IF ~Degenerate(g) /\ ba >= 0 /\ bb >= 0 /\ bc >= 0
    THEN LET h == Dot(g.np, W) IN RNorm(h * h, k * k * g.npn)
    ELSE RMin(SegDist2(g.a, g.b, P, k), RMin(SegDist2(g.b, g.c, P, k), SegDist2(g.c, g.a, P, k)))

RECURSIVE MinDist2(_, _, _, _)
MinDist2(G, n, P, k) == IF n = 1 THEN TriDist2(G[1], P, k)
                        ELSE RMin(MinDist2(G, n - 1, P, k), TriDist2(G[n], P, k))

\* q = Q / m is the point of the closed triangle g nearest to p = P / k
IsProjection(g, Q, m, P, k) ==
    LET R == Sub(Scale(m, P), Scale(k, Q))                      \* k m (p - q)
        ok(x) == Dot(R, Sub(Scale(m, x), Q)) <= 0 IN
    InClosedTri(g, Q, m) /\ ok(g.a) /\ ok(g.b) /\ ok(g.c)

RECURSIVE MinVert2(_, _, _, _)
VDist2(V, j, P, k) == LET W == Sub(P, Scale(k, V[j])) IN Dot(W, W)      \* k^2 |p - v_j|^2
MinVert2(V, n, P, k) == IF n = 1 THEN VDist2(V, 1, P, k)
                        ELSE LET a == MinVert2(V, n - 1, P, k)  b == VDist2(V, n, P, k) IN IF b < a THEN b ELSE a

\* reported rational N / D equals the reduced rational r
REq(N, D, r) == D > 0 /\ N * r[2] = r[1] * D

\* closest-point observation o: api, offlattice, Q / qd (closest point), d2n / d2d (distance^2), tid
NearClause(G, P, k, md, o) ==
    IF o.offlattice # "" THEN "offlattice_" \o o.offlattice
    ELSE IF o.tid < 0 \/ o.tid >= Len(G) THEN "triangle_index_out_of_range"
    ELSE IF ~IsProjection(G[o.tid + 1], o.Q, o.qd, P, k) THEN "point_is_not_nearest_point_of_reported_triangle"
    ELSE IF TriDist2(G[o.tid + 1], P, k) # md THEN "reported_triangle_is_not_a_nearest_one"
    ELSE IF ~REq(o.d2n, o.d2d, md) THEN "distance_is_not_the_minimum"
    ELSE "ok"

PtClause(c) ==
    LET G == Geo[c.m]  V == Meshes[c.m].verts  P == c.p  k == c.k
        md == MinDist2(G, Len(G), P, k)
        closed == Meshes[c.m].closed
        ins == IF closed THEN Inside(G, P, k) ELSE "unknown"
        badn == {j \in 1..Len(c.near) : NearClause(G, P, k, md, c.near[j]) # "ok"}
        mv == MinVert2(V, Len(V), P, k)
        badc == {j \in 1..Len(c.cont) : c.cont[j].v # (ins = "in")} IN
    IF md[1] * PM * PM < md[2] THEN "SKIP_point_within_margin_of_surface"
    ELSE IF c.exc # "" THEN "raised_" \o c.exc
    ELSE IF badn # {} THEN LET j == Min(badn) IN c.near[j].api \o ":" \o NearClause(G, P, k, md, c.near[j])
    ELSE IF c.sd.offlattice # "" THEN "signed_distance:offlattice_" \o c.sd.offlattice
    ELSE IF ~REq(c.sd.d2n, c.sd.d2d, md) THEN "signed_distance:magnitude_is_not_the_minimum"
    ELSE IF ins # "unknown" /\ c.sd.sign # (IF ins = "in" THEN 1 ELSE -1) THEN "signed_distance:sign"
    ELSE IF c.vtx.offlattice # "" THEN "nearest_vertex:offlattice_" \o c.vtx.offlattice
    ELSE IF c.vtx.vid < 0 \/ c.vtx.vid >= Len(V) THEN "nearest_vertex:index_out_of_range"
    ELSE IF VDist2(V, c.vtx.vid + 1, P, k) # mv THEN "nearest_vertex:is_not_a_nearest_one"
    ELSE IF ~REq(c.vtx.d2n, c.vtx.d2d, <<mv, k * k>>) THEN "nearest_vertex:distance"
    ELSE IF ins # "unknown" /\ badc # {} THEN c.cont[Min(badc)].name \o ":contains_points_wrong"
    ELSE IF closed /\ ins = "unknown" THEN "NOTE_no_parity_direction_in_general_position"
    ELSE "ok"

Clause(c) == IF c.kind = "ray" THEN RayClause(c) ELSE IF c.kind = "pt" THEN PtClause(c) ELSE "unknown_kind"

Init == i = 1
Next == i < Len(Cases) /\ i' = i + 1
\* clauses starting with SKIP_ (input outside the property's quantifier) and NOTE_ are counted by
\* the harness, every other clause is a rejection
Report == LET c == Cases[i]  cl == Clause(c)
          IN IF cl # "ok" THEN PrintT(<<"REJECT", c.id, cl>>) ELSE TRUE

\* ------------------------------------------------------------ the inputs satisfy the hypotheses
\* per mesh (once, at the first record): the closedness claimed by the harness is the real one, closed
\* meshes are wound outward, and every exact answer has a denominator within the snapping bounds
MeshSane(mi) ==
    LET me == Meshes[mi]  G == Geo[mi] IN
    /\ Len(G) >= 1 /\ Len(me.verts) >= 3
    /\ \E f \in 1..Len(G) : ~Degenerate(G[f])
    /\ \A f \in 1..Len(G) :
          Degenerate(G[f]) =>
             LET g == G[f] IN
             /\ g.a # g.b /\ g.b # g.c /\ g.a # g.c
             /\ \E h \in 1..Len(G) :
                   /\ ~Degenerate(G[h])
                   /\ \E e \in {<<G[h].a, G[h].b>>, <<G[h].b, G[h].c>>, <<G[h].c, G[h].a>>} :
                         \A p \in {g.a, g.b, g.c} : OnSeg(p, e[1], e[2])
    /\ me.closed = Closed(G)
    /\ me.closed => Vol6(G, Len(G)) > 0
    /\ \A f \in 1..Len(G) :
          LET g == G[f] IN
          /\ 4 * 2 * SumAbs(g.np) <= me.snap_ray              \* hit locations: k |d . np|, k <= 4, |d_j| <= 2
          /\ 4 * g.npn <= me.snap_pt /\ 16 * g.npn <= me.snap_d2
          /\ \A e \in {Prim(g.e1), Prim(g.e2), Prim(Sub(g.c, g.b))} :
                4 * Dot(e, e) <= me.snap_pt /\ 16 * Dot(e, e) <= me.snap_d2
InputSane ==
    LET c == Cases[i] IN
    /\ (i = 1 => \A mi \in 1..Len(Meshes) : MeshSane(mi))
    /\ c.m \in 1..Len(Meshes)
    /\ IF c.kind = "ray"
       THEN c.k \in {1, 2, 4} /\ c.d # Zero3 /\ \A j \in 1..3 : Abs(c.d[j]) <= 2
       ELSE c.kind = "pt" /\ c.k = 4

\* ------------------------------------------------------------ laws of the reference itself
\* (on the records flagged c.laws)  closed surface: the numbers of crossings along d and along -d have
\* the same parity, and two parity directions classify a point alike; the surface is no farther than
\* the nearest vertex of a face
RefSane ==
    LET c == Cases[i]  G == Geo[c.m]  closed == Meshes[c.m].closed IN
    c.laws =>
      IF c.kind = "ray"
      THEN closed =>
             LET v == View(G, c.o, c.k, c.d)  w == View(G, c.o, c.k, Scale(-1, c.d)) IN
             (~v.deg /\ ~w.deg) => (Cardinality(v.hits) + Cardinality(w.hits)) % 2 = 0
      ELSE LET V == Meshes[c.m].verts  F == Meshes[c.m].faces
               md == MinDist2(G, Len(G), c.p, c.k)
               j1 == FirstClear(G, c.p, c.k, 1)
               j2 == IF j1 = 0 THEN 0 ELSE FirstClear(G, c.p, c.k, j1 + 1) IN
           \* (vertices of faces only: a mesh may carry vertices no face refers to)
           /\ \A f \in 1..Len(F) : \A j \in 1..3 : md[1] * c.k * c.k <= VDist2(V, F[f][j] + 1, c.p, c.k) * md[2]
           /\ (closed /\ j2 # 0) => (OddAlong(G, c.p, c.k, j1) = OddAlong(G, c.p, c.k, j2))
=============================================================================
