------------------------------ MODULE MeshDeps ------------------------------
(***************************************************************************)
(* What the derived values of a Trimesh depend on, for the keys that the   *)
(* library keeps in the cache across its own mutators (property C01).      *)
(* ValidKept(mu, k): keeping (and, for normals, transporting as the        *)
(* mutator is meant to) the cached value of k across a mutation of class   *)
(* mu yields the value a fresh mesh would report.                          *)
(* This is the specification's table; which keys the code actually keeps   *)
(* is observed on the tree under test.  A key that is kept but not valid   *)
(* here is a predicted stale read.                                         *)
(***************************************************************************)
EXTENDS FiniteSets

\* functions of the face array only (including column order and row order)
PositionFree == {"edges", "edges_face", "edges_sorted", "edges_sorted_tree", "edges_unique",
                 "edges_unique_idx", "edges_unique_inverse", "edges_sparse", "faces_unique_edges",
                 "face_adjacency", "face_adjacency_edges", "face_adjacency_unshared", "body_count",
                 "euler_number", "faces_sparse", "vertex_faces", "vertex_degree", "vertex_neighbors",
                 "vertex_adjacency_graph", "referenced_vertices", "is_watertight",
                 "is_winding_consistent", "face_neighborhood", "vertices_component_label"}
\* of those, unchanged when every face is re-wound (columns reversed), as the mirror transforms do
WindingFree == {"edges_face", "edges_unique", "face_adjacency", "face_adjacency_edges",
                "face_adjacency_unshared", "body_count", "euler_number", "faces_sparse", "vertex_degree",
                "referenced_vertices", "is_watertight", "is_winding_consistent", "vertices_component_label"}
Normals == {"face_normals", "vertex_normals"}

\* mutation classes that only move vertices, keeping the face array as it is
MovesOnly == {"identity", "translate", "rigid", "scale", "aniso", "shear"}
\* classes that move vertices and re-wind every face (negative determinant)
MovesAndRewinds == {"mirror", "mirror_aniso"}
\* classes under which unit normals are carried exactly by the linear part (angles preserved)
Conformal == {"identity", "translate", "rigid", "scale", "mirror"}

ValidKept(mu, k) ==
    \/ mu \in MovesOnly /\ k \in PositionFree
    \/ mu \in MovesAndRewinds /\ k \in WindingFree
    \/ mu \in Conformal /\ k \in Normals
    \* face normals of an affinely mapped triangle are the inverse-transpose image, re-unitised;
    \* vertex normals are angle-weighted averages and are not carried by any linear map
    \/ mu \in {"aniso", "shear", "mirror_aniso"} /\ k = "face_normals"
    \* inversion negates both kinds of normals and changes nothing that ignores orientation
    \/ mu = "invert" /\ k \in Normals
    \* masking faces keeps the normals of the surviving faces
    \/ mu = "faces_mask" /\ k = "face_normals"
    \* dropping unreferenced vertices / un-merging leaves every face and its normal alone
    \/ mu \in {"verts_mask", "unmerge"} /\ k = "face_normals"
    \/ mu = "verts_mask" /\ k = "vertex_normals"
    \* merging duplicate vertices and processing without validation do not move any face
    \/ mu \in {"merge", "process"} /\ k = "face_normals"
    \* overrides only feed the mass properties
    \/ mu \in {"density", "center_mass"} /\ k # "mass_properties" /\ k \notin {"mass", "moment_inertia", "center_mass",
             "principal_inertia_components", "principal_inertia_vectors", "principal_inertia_transform",
             "symmetry", "symmetry_axis", "symmetry_section"}
=============================================================================
