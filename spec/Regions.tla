------------------------------- MODULE Regions -------------------------------
(***************************************************************************)
(* Closed regions of a planar drawing (property C14).                      *)
(*                                                                         *)
(* A drawing is a set of disjoint or nested simple closed lattice curves,  *)
(* each given as its cycle of integer vertices.  The regions, their        *)
(* nesting into shells and holes, total area and total length are          *)
(* functions of the drawing only - not of how the boundary is split into   *)
(* entities, in which order they are listed or which way each one runs     *)
(* (the harness enumerates those presentations; this module judges what    *)
(* the real Path2D reported for each of them), and they transform          *)
(* covariantly under similarity maps applied after any reads.              *)
(*                                                                         *)
(* Exact definitions: a closed polygon is identified by its set of         *)
(* undirected edges (invariant under rotation of the start vertex and      *)
(* under reversal); containment by the even-odd rule with integer          *)
(* arithmetic on one vertex of the inner curve (curves are disjoint);      *)
(* depth = number of curves containing it; shells have even depth, holes   *)
(* odd depth and belong to their innermost containing curve; twice the     *)
(* area by the shoelace formula; squared edge lengths are perfect squares  *)
(* for the rectilinear and 3-4-5 families, so length is an integer.        *)
(*                                                                         *)
(* Drawings with arc segments (records of kind "arc") have irrational      *)
(* measures.  Each curve is then given by its lattice skeleton (the cycle  *)
(* of lattice points the boundary passes through: end and control points   *)
(* of the arcs, vertices of the straight parts) and a flag saying whether  *)
(* it has curved parts.  Nesting is a function of the skeletons; polygonal *)
(* curves must come back exactly; the measures must stand in the stated    *)
(* fixed-point relation to the reading of the canonical presentation of    *)
(* the same drawing (ArcClause).                                           *)
(***************************************************************************)
EXTENDS Integers, Sequences, FiniteSets, TLC, Json

Cases == ndJsonDeserialize("cases.ndjson")
VARIABLE i

Abs(x) == IF x < 0 THEN -x ELSE x
Nxt(c, k) == IF k = Len(c) THEN 1 ELSE k + 1
EdgeSet(c) == {{c[k], c[Nxt(c, k)]} : k \in 1..Len(c)}
\* an observed ring may repeat its first vertex at the end (shapely convention)
Open(r) == IF Len(r) > 1 /\ r[1] = r[Len(r)] THEN SubSeq(r, 1, Len(r) - 1) ELSE r

RECURSIVE Shoe(_, _)
Shoe(c, k) == IF k = 0 THEN 0
              ELSE c[k][1] * c[Nxt(c, k)][2] - c[Nxt(c, k)][1] * c[k][2] + Shoe(c, k - 1)
Area2(c) == Abs(Shoe(c, Len(c)))

\* integer square root of a perfect square (edge lengths of the families used are integers)
ISqrt(n) == CHOOSE r \in 0..n : r * r = n
RECURSIVE Perim(_, _)
Perim(c, k) == IF k = 0 THEN 0
               ELSE LET a == c[k]  b == c[Nxt(c, k)]
                        d2 == (a[1] - b[1]) * (a[1] - b[1]) + (a[2] - b[2]) * (a[2] - b[2])
                    IN ISqrt(d2) + Perim(c, k - 1)
Length(c) == Perim(c, Len(c))

\* even-odd rule: does the ray from p towards +x cross edge (a, b)?  (p is not on the curve)
Crosses(p, a, b) ==
    /\ (a[2] > p[2]) # (b[2] > p[2])
    /\ LET dy == b[2] - a[2]
           \* p.x < a.x + (p.y - a.y) * (b.x - a.x) / dy   multiplied by dy with its sign
           lhs == (p[1] - a[1]) * dy
           rhs == (p[2] - a[2]) * (b[1] - a[1])
       IN IF dy > 0 THEN lhs < rhs ELSE lhs > rhs
Inside(p, c) == Cardinality({k \in 1..Len(c) : Crosses(p, c[k], c[Nxt(c, k)])}) % 2 = 1

\* ---------------------------------------------------------------- the drawing
Contains(cs, a, b) == a # b /\ Inside(cs[b][1], cs[a])           \* curve a contains curve b
Depth(cs, b) == Cardinality({a \in 1..Len(cs) : Contains(cs, a, b)})
Shells(cs) == {b \in 1..Len(cs) : Depth(cs, b) % 2 = 0}
ParentOf(cs, b) == CHOOSE a \in 1..Len(cs) : Contains(cs, a, b) /\ Depth(cs, a) = Depth(cs, b) - 1
HolesOf(cs, s) == {b \in 1..Len(cs) : Depth(cs, b) % 2 = 1 /\ ParentOf(cs, b) = s}

RECURSIVE SumLen(_, _)
SumLen(S, cs) == IF S = {} THEN 0 ELSE LET x == CHOOSE x \in S : TRUE IN Length(cs[x]) + SumLen(S \ {x}, cs)
RECURSIVE SumArea(_, _)
SumArea(S, cs) == IF S = {} THEN 0 ELSE LET x == CHOOSE x \in S : TRUE IN Area2(cs[x]) + SumArea(S \ {x}, cs)
TotalLength(cs) == SumLen(1..Len(cs), cs)
TotalArea2(cs) == SumArea(Shells(cs), cs) - SumArea((1..Len(cs)) \ Shells(cs), cs)

\* image of the drawing under an integer similarity map [l |-> 2x2, t |-> <<x,y>>]
MapPt(m, p) == <<m.l[1][1] * p[1] + m.l[1][2] * p[2] + m.t[1], m.l[2][1] * p[1] + m.l[2][2] * p[2] + m.t[2]>>
MapCurve(m, c) == [k \in 1..Len(c) |-> MapPt(m, c[k])]
MapAll(m, cs) == [k \in 1..Len(cs) |-> MapCurve(m, cs[k])]

\* rezero(): the drawing translated so that the lower left corner of its bounding box is the origin
MinOf(S) == CHOOSE v \in S : \A w \in S : v <= w
Coord(cs, a) == UNION {{cs[k][j][a] : j \in 1..Len(cs[k])} : k \in 1..Len(cs)}
ToOrigin(cs) == MapAll([l |-> <<<<1, 0>>, <<0, 1>>>>, t |-> <<0 - MinOf(Coord(cs, 1)), 0 - MinOf(Coord(cs, 2))>>], cs)

BagOfInts(S) == [n \in {x.n : x \in S} |-> Cardinality({x \in S : x.n = n})]

\* ------------------------------------------------------------------ validator
\* c.curves: the drawing; c.m: the map applied before the final read (identity if none)
\* c.obs: [closed, polys (sequence of rings), full (sequence of [ext, ints]), area2, length, bodies, den]
\*        coordinates are multiplied by obs.den (1 or 2) by the harness to stay integral
Clause(c) ==
    LET d == c.obs.den
        scale == [l |-> <<<<d, 0>>, <<0, d>>>>, t |-> <<0, 0>>]
        \* c.m2: a second map applied after c.m (identity when the history has one transform)
        cs0 == MapAll(scale, MapAll(c.m2, MapAll(c.m, c.curves)))
        \* c.rezero: the history ended with rezero()
        cs == IF c.rezero THEN ToOrigin(cs0) ELSE cs0
        want == {EdgeSet(cs[k]) : k \in 1..Len(cs)}
        gotPolys == {EdgeSet(Open(c.obs.polys[k])) : k \in 1..Len(c.obs.polys)}
        wantFull == {[ext |-> EdgeSet(cs[s]), ints |-> {EdgeSet(cs[h]) : h \in HolesOf(cs, s)}] : s \in Shells(cs)}
        gotFull == {[ext |-> EdgeSet(Open(c.obs.full[k].ext)),
                     ints |-> {EdgeSet(Open(c.obs.full[k].ints[j])) : j \in 1..Len(c.obs.full[k].ints)}] : k \in 1..Len(c.obs.full)}
    IN IF ~c.obs.closed THEN "is_closed"
       ELSE IF Len(c.obs.polys) # Len(cs) THEN "polygon_count"
       ELSE IF ~c.loose /\ gotPolys # want THEN "polygons_are_the_curves"
       ELSE IF Len(c.obs.full) # Cardinality(Shells(cs)) \/ c.obs.bodies # Cardinality(Shells(cs)) THEN "body_count"
       ELSE IF ~c.loose /\ gotFull # wantFull THEN "nesting_shells_and_holes"
       \* loose (formats that may re-frame coordinates): nesting compared by hole counts per shell only
       ELSE IF c.loose /\ BagOfInts({[k |-> k, n |-> Len(c.obs.full[k].ints)] : k \in 1..Len(c.obs.full)})
                        # BagOfInts({[k |-> s, n |-> Cardinality(HolesOf(cs, s))] : s \in Shells(cs)}) THEN "nesting_hole_counts"
       ELSE IF c.obs.area2 # TotalArea2(cs) THEN "area"
       ELSE IF c.obs.length # TotalLength(cs) THEN "length"
       ELSE "ok"

\* ------------------------------------------------------------------ drawings with arcs
\* c.curves: lattice skeletons; c.arcs[k]: curve k has curved parts; c.m, c.m2: integer similarity maps
\* c.canon: [area_fp, len_fp] reading of the canonical presentation of the drawing (no map),
\*          area in units of 1e-2, length in units of 1e-3; c.smooth_area_fp: closed form of the smooth region
\* c.obs: closed, npolys, bodies, polys (the rings of polygons_closed that lie on the lattice),
\*        full (sequence of [curved, ext, ints (lattice rings), ncurved]), area_fp, len_fp,
\*        len_ppb (relative residual of the length against k * canonical length, in 1e-9)
\* c.len_tol_ppb: admitted residual (0: length is not compared, the presentation is not made of arcs)
Det(m) == Abs(m.l[1][1] * m.l[2][2] - m.l[1][2] * m.l[2][1])
Bag(f) == [d \in {f[x] : x \in DOMAIN f} |-> Cardinality({x \in DOMAIN f : f[x] = d})]
ArcClause(c) ==
    LET cs == MapAll(c.m2, MapAll(c.m, c.curves))
        k2 == Det(c.m) * Det(c.m2)
        k == ISqrt(k2)
        N == Len(cs)
        straight == {j \in 1..N : ~c.arcs[j]}
        want == {EdgeSet(cs[j]) : j \in straight}
        got == {EdgeSet(Open(c.obs.polys[j])) : j \in 1..Len(c.obs.polys)}
        wantFull == [s \in Shells(cs) |->
                        [ext |-> IF c.arcs[s] THEN {} ELSE EdgeSet(cs[s]),
                         ints |-> {EdgeSet(cs[h]) : h \in {h \in HolesOf(cs, s) : ~c.arcs[h]}},
                         ncurved |-> Cardinality({h \in HolesOf(cs, s) : c.arcs[h]})]]
        gotFull == [j \in 1..Len(c.obs.full) |->
                        [ext |-> IF c.obs.full[j].curved THEN {} ELSE EdgeSet(Open(c.obs.full[j].ext)),
                         ints |-> {EdgeSet(Open(c.obs.full[j].ints[r])) : r \in 1..Len(c.obs.full[j].ints)},
                         ncurved |-> c.obs.full[j].ncurved]]
        wantArea == k2 * c.canon.area_fp
        wantLen == k * c.canon.len_fp
    IN IF ~c.obs.closed THEN "is_closed"
       ELSE IF c.obs.npolys # N THEN "polygon_count"
       ELSE IF Len(c.obs.polys) # Cardinality(straight) \/ got # want THEN "polygons_are_the_curves"
       ELSE IF Len(c.obs.full) # Cardinality(Shells(cs)) \/ c.obs.bodies # Cardinality(Shells(cs)) THEN "body_count"
       ELSE IF Bag(gotFull) # Bag(wantFull) THEN "nesting_shells_and_holes"
       \* the canonical reading itself is the discretised smooth region (0.5 per cent)
       ELSE IF 200 * Abs(c.canon.area_fp - c.smooth_area_fp) > c.smooth_area_fp THEN "arc_area_far_from_smooth_region"
       \* area of a discretised arc depends on the split at the 1e-4 level: 2e-3 relative, one unit of rounding
       ELSE IF 500 * Abs(c.obs.area_fp - wantArea) > wantArea + 500 * (k2 + 1) THEN "arc_area"
       ELSE IF c.len_tol_ppb > 0 /\ Abs(c.obs.len_fp - wantLen) > k + 1 THEN "arc_length"
       ELSE IF c.len_tol_ppb > 0 /\ Abs(c.obs.len_ppb) > c.len_tol_ppb THEN "arc_length_fine"
       ELSE "ok"

Init == i = 1
Next == i < Len(Cases) /\ i' = i + 1
Report == LET c == Cases[i]  cl == IF c.exc # "" THEN "raised" ELSE IF c.kind = "arc" THEN ArcClause(c) ELSE Clause(c)
          IN IF cl # "ok" THEN PrintT(<<"REJECT", c.id, cl>>) ELSE TRUE
\* sanity of the reference on the recorded drawings: nesting is a forest with alternating depth
RefSane == LET cs == Cases[i].curves IN
           \A b \in 1..Len(cs) : Depth(cs, b) > 0 =>
               Cardinality({a \in 1..Len(cs) : Contains(cs, a, b) /\ Depth(cs, a) = Depth(cs, b) - 1}) = 1
=============================================================================
