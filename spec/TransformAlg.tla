--------------------------- MODULE TransformAlg ---------------------------
(***************************************************************************)
(* Exact algebra of rigid / affine transforms (property C19) and a batch   *)
(* validator of recorded calls of trimesh.transformations / geometry.      *)
(*                                                                         *)
(* Numbers.  TLC has 32-bit integers and no reals, so every quantity is an *)
(* integer or a rational with an explicit denominator:                     *)
(*   integer matrix   <<row, row, ...>>              (3x3, 4x4, 2x2 ...)   *)
(*   rational matrix  [n |-> integer matrix, d |-> common denominator > 0] *)
(*   angle            [t |-> "k", k |-> j]      the angle j * 90 degrees   *)
(*                    [t |-> "p", c, s, d]      cos = c/d, sin = s/d       *)
(*                                              (Pythagorean: cc+ss = dd)  *)
(*   quaternion       <<w, x, y, z>> integers denoting the UNIT quaternion *)
(*                    (w,x,y,z)/sqrt(ww+xx+yy+zz); the 48 unit quaternions *)
(*                    of the cube rotations (components 0, +-1/2,          *)
(*                    +-sqrt(1/2), +-1) are the integer quaternions with   *)
(*                    entries in -1..1 and square norm 1, 2 or 4           *)
(*   axis-angle       integer axis a (any length, m = a.a) and             *)
(*                    [c, sg, d]: cos = c/d, sin = sg*sqrt(m)/d            *)
(* Rational rotations in general position come from integer quaternions    *)
(* with square norm ((1,2,2,4)/5, (2,3,6,0)/7, (2,4,5,6)/9, (1,2,4,10)/11) *)
(* and from Pythagorean Euler angles ((3,4)/5, (5,12)/13).                 *)
(*                                                                         *)
(* The harness snaps every float the implementation returns to this        *)
(* lattice (residual 1e-9); a value that does not snap is listed in the    *)
(* record's `off` field and the record is rejected.  Every expected        *)
(* matrix / point / factor below is computed by TLC.  Where a              *)
(* representation is not unique (Euler angles, quaternion sign, axis sign, *)
(* point on the axis) the ROTATION rebuilt here from the returned          *)
(* parameters is compared, never the raw parameters.                       *)
(***************************************************************************)
EXTENDS Integers, Sequences, FiniteSets, TLC, Json

Cases == ndJsonDeserialize("cases.ndjson")
VARIABLE i

\* ===================================================== integer matrix algebra
RECURSIVE DotK(_, _, _, _, _)
DotK(A, B, r, c, k) == IF k = 0 THEN 0 ELSE A[r][k] * B[k][c] + DotK(A, B, r, c, k - 1)
Mul(A, B) == [r \in 1..Len(A) |-> [c \in 1..Len(B[1]) |-> DotK(A, B, r, c, Len(B))]]
RECURSIVE DotV(_, _, _)
DotV(u, v, k) == IF k = 0 THEN 0 ELSE u[k] * v[k] + DotV(u, v, k - 1)
Dot(u, v) == DotV(u, v, Len(u))
MatVec(A, v) == [r \in 1..Len(A) |-> Dot(A[r], v)]
Transpose(A) == [r \in 1..Len(A[1]) |-> [c \in 1..Len(A) |-> A[c][r]]]
Id(n) == [r \in 1..n |-> [c \in 1..n |-> IF r = c THEN 1 ELSE 0]]
Scal(k, A) == [r \in 1..Len(A) |-> [c \in 1..Len(A[r]) |-> k * A[r][c]]]
ScalV(k, v) == [r \in 1..Len(v) |-> k * v[r]]
AddM(A, B) == [r \in 1..Len(A) |-> [c \in 1..Len(A[r]) |-> A[r][c] + B[r][c]]]
AddV(u, v) == [r \in 1..Len(u) |-> u[r] + v[r]]
SubV(u, v) == [r \in 1..Len(u) |-> u[r] - v[r]]
Diag(v) == [r \in 1..Len(v) |-> [c \in 1..Len(v) |-> IF r = c THEN v[r] ELSE 0]]
Outer(u, v) == [r \in 1..Len(u) |-> [c \in 1..Len(v) |-> u[r] * v[c]]]
Det3(A) == A[1][1] * (A[2][2] * A[3][3] - A[2][3] * A[3][2])
         - A[1][2] * (A[2][1] * A[3][3] - A[2][3] * A[3][1])
         + A[1][3] * (A[2][1] * A[3][2] - A[2][2] * A[3][1])
Det2(A) == A[1][1] * A[2][2] - A[1][2] * A[2][1]
Cross(u, v) == <<u[2] * v[3] - u[3] * v[2], u[3] * v[1] - u[1] * v[3], u[1] * v[2] - u[2] * v[1]>>
CrossMat(a) == <<<<0, -a[3], a[2]>>, <<a[3], 0, -a[1]>>, <<-a[2], a[1], 0>>>>
SumSq(v) == Dot(v, v)
Sub(A, n) == [r \in 1..n |-> [c \in 1..n |-> A[r][c]]]           \* leading n x n block
IsSquare(A, n) == Len(A) = n /\ \A r \in 1..n : Len(A[r]) = n

\* ==================================================== rational matrix algebra
Rat(n, d) == [n |-> n, d |-> d]
RMul(A, B) == Rat(Mul(A.n, B.n), A.d * B.d)
RT(A) == Rat(Transpose(A.n), A.d)
RId(n) == Rat(Id(n), 1)
\* equality of rationals without cross-multiplication (no 32-bit overflow): with g = gcd of the
\* denominators and a' = A.d/g, b' = B.d/g coprime,  x/A.d = y/B.d  iff  a' | x, b' | y, x/a' = y/b'
RECURSIVE GCD(_, _)
GCD(a, b) == IF b = 0 THEN a ELSE GCD(b, a % b)
QEq(x, dx, y, dy) == LET g == GCD(dx, dy)  a == dx \div g  b == dy \div g IN
                     x % a = 0 /\ y % b = 0 /\ x \div a = y \div b
VEq(u, du, v, dv) == du > 0 /\ dv > 0 /\ Len(u) = Len(v) /\ \A k \in 1..Len(u) : QEq(u[k], du, v[k], dv)
REq(A, B) == /\ A.d > 0 /\ B.d > 0 /\ Len(A.n) = Len(B.n)
             /\ \A r \in 1..Len(A.n) : VEq(A.n[r], A.d, B.n[r], B.d)
RSub(A, n) == Rat(Sub(A.n, n), A.d)
\* orthonormal with determinant +1, without forming d^3: rows orthonormal and row1 x row2 = row3
IsRotation3(A) == /\ A.d > 0 /\ IsSquare(A.n, 3)
                  /\ \A r, c \in 1..3 : A.n[r][c] <= A.d /\ -A.n[r][c] <= A.d
                  /\ Mul(A.n, Transpose(A.n)) = Scal(A.d * A.d, Id(3))
                  /\ Cross(A.n[1], A.n[2]) = ScalV(A.d, A.n[3])
IsRotation2(A) == /\ A.d > 0 /\ IsSquare(A.n, 2)
                  /\ \A r, c \in 1..2 : A.n[r][c] <= A.d /\ -A.n[r][c] <= A.d
                  /\ Mul(A.n, Transpose(A.n)) = Scal(A.d * A.d, Id(2))
                  /\ Det2(A.n) = A.d * A.d
\* homogeneous (dim+1) matrix from a rational linear part L and translation tn/td
Hom(L, tn, td) ==
    LET k == Len(L.n) IN
    Rat([r \in 1..(k + 1) |-> [c \in 1..(k + 1) |->
            IF r <= k /\ c <= k THEN L.n[r][c] * td
            ELSE IF r <= k THEN tn[r] * L.d
            ELSE IF c <= k THEN 0 ELSE L.d * td]], L.d * td)
\* the same with the translation numerators already over the denominator of L
HomD(L, tn) ==
    LET k == Len(L.n) IN
    Rat([r \in 1..(k + 1) |-> [c \in 1..(k + 1) |->
            IF r <= k /\ c <= k THEN L.n[r][c] ELSE IF r <= k THEN tn[r] ELSE IF c <= k THEN 0 ELSE L.d]], L.d)
\* an affine homogeneous matrix: last row (0,...,0,1)
IsAffine(M, k) == /\ M.d > 0 /\ IsSquare(M.n, k + 1)
                  /\ \A c \in 1..k : M.n[k + 1][c] = 0
                  /\ M.n[k + 1][k + 1] = M.d
NoTranslation(M, k) == \A r \in 1..k : M.n[r][k + 1] = 0
TransCol(M, k) == [r \in 1..k |-> M.n[r][k + 1]]                 \* numerators over M.d
\* translation by an integer vector as a homogeneous matrix
Trans(p) == Hom(RId(Len(p)), p, 1)

\* ============================================ elementary rotations, cube group
Cos4(k) == CASE k % 4 = 0 -> 1 [] k % 4 = 1 -> 0 [] k % 4 = 2 -> -1 [] OTHER -> 0
Sin4(k) == Cos4(k - 1)
\* cos, sin, denominator of an angle record
Ang(a) == IF a.t = "k" THEN <<Cos4(a.k), Sin4(a.k), 1>> ELSE <<a.c, a.s, a.d>>
AngOk(a) == a.t = "k" \/ (a.t = "p" /\ a.d > 0 /\ a.c * a.c + a.s * a.s = a.d * a.d)
K(j) == [t |-> "k", k |-> j]
\* right-handed rotation about coordinate axis ax (1 = x, 2 = y, 3 = z)
AxRot(ax, a) ==
    LET t == Ang(a)  c == t[1]  s == t[2]  d == t[3] IN
    Rat(CASE ax = 1 -> <<<<d, 0, 0>>, <<0, c, -s>>, <<0, s, c>>>>
          [] ax = 2 -> <<<<c, 0, s>>, <<0, d, 0>>, <<-s, 0, c>>>>
          [] ax = 3 -> <<<<c, -s, 0>>, <<s, c, 0>>, <<0, 0, d>>>>, d)
Rx(k) == AxRot(1, K(k)).n
Ry(k) == AxRot(2, K(k)).n
Rz(k) == AxRot(3, K(k)).n
\* the rotation group of the cube: everything generated by quarter turns about the axes
Cube24 == {Mul(Mul(Rx(a), Ry(b)), Rz(c)) : a, b, c \in 0..3}
Axes6 == {<<1, 0, 0>>, <<-1, 0, 0>>, <<0, 1, 0>>, <<0, -1, 0>>, <<0, 0, 1>>, <<0, 0, -1>>}

\* ===================================================== 24 Euler conventions
\* name |-> <<frame (0 static, 1 rotating), first, second, third axis>>  (the letters of the name)
Conv == [ sxyz |-> <<0, 1, 2, 3>>, sxyx |-> <<0, 1, 2, 1>>, sxzy |-> <<0, 1, 3, 2>>, sxzx |-> <<0, 1, 3, 1>>,
          syzx |-> <<0, 2, 3, 1>>, syzy |-> <<0, 2, 3, 2>>, syxz |-> <<0, 2, 1, 3>>, syxy |-> <<0, 2, 1, 2>>,
          szxy |-> <<0, 3, 1, 2>>, szxz |-> <<0, 3, 1, 3>>, szyx |-> <<0, 3, 2, 1>>, szyz |-> <<0, 3, 2, 3>>,
          rzyx |-> <<1, 3, 2, 1>>, rxyx |-> <<1, 1, 2, 1>>, ryzx |-> <<1, 2, 3, 1>>, rxzx |-> <<1, 1, 3, 1>>,
          rxzy |-> <<1, 1, 3, 2>>, ryzy |-> <<1, 2, 3, 2>>, rzxy |-> <<1, 3, 1, 2>>, ryxy |-> <<1, 2, 1, 2>>,
          ryxz |-> <<1, 2, 1, 3>>, rzxz |-> <<1, 3, 1, 3>>, rxyz |-> <<1, 1, 2, 3>>, rzyz |-> <<1, 3, 2, 3>> ]
ConvNames == DOMAIN Conv
\* Static frame: the rotations about the fixed axes are applied one after the other, so the
\* later one multiplies on the left:  R = R_third(a3) R_second(a2) R_first(a1).
\* Rotating frame: each rotation is about an axis of the already rotated frame, so the later
\* one multiplies on the right:       R = R_first(a1) R_second(a2) R_third(a3).
EulerRef(name, a) ==
    LET t == Conv[name]
        R1 == AxRot(t[2], a[1])  R2 == AxRot(t[3], a[2])  R3 == AxRot(t[4], a[3]) IN
    IF t[1] = 0 THEN RMul(R3, RMul(R2, R1)) ELSE RMul(R1, RMul(R2, R3))

\* ================================================================ quaternions
\* rotation of the unit quaternion q/|q|, denominator |q|^2
QuatMat(q) ==
    LET w == q[1]  x == q[2]  y == q[3]  z == q[4]  n == SumSq(q) IN
    Rat(<<<<n - 2 * (y * y + z * z), 2 * (x * y - w * z), 2 * (x * z + w * y)>>,
          <<2 * (x * y + w * z), n - 2 * (x * x + z * z), 2 * (y * z - w * x)>>,
          <<2 * (x * z - w * y), 2 * (y * z + w * x), n - 2 * (x * x + y * y)>>>>, n)
\* Hamilton product
QMul(p, q) ==
    <<p[1] * q[1] - p[2] * q[2] - p[3] * q[3] - p[4] * q[4],
      p[1] * q[2] + p[2] * q[1] + p[3] * q[4] - p[4] * q[3],
      p[1] * q[3] - p[2] * q[4] + p[3] * q[1] + p[4] * q[2],
      p[1] * q[4] + p[2] * q[3] - p[3] * q[2] + p[4] * q[1]>>
QNeg(q) == <<-q[1], -q[2], -q[3], -q[4]>>
QConj(q) == <<q[1], -q[2], -q[3], -q[4]>>
\* the 48 unit quaternions of the cube rotations, scaled to integers
LatQ == {q \in (-1..1) \X (-1..1) \X (-1..1) \X (-1..1) : SumSq(q) \in {1, 2, 4}}
\* integer matrix of a rational matrix all of whose numerators are divisible by d
AsInt(A) == [r \in 1..Len(A.n) |-> [c \in 1..Len(A.n[r]) |-> A.n[r][c] \div A.d]]
IsIntegral(A) == \A r \in 1..Len(A.n) : \A c \in 1..Len(A.n[r]) : A.n[r][c] % A.d = 0

\* ================================================================= axis-angle
\* Rodrigues: R = cos I + (1 - cos) u u^T + sin [u]x with u = a / |a|, m = a.a,
\* cos = c/d, sin = sg sqrt(m) / d   =>   R = (c m I + (d - c) a a^T + sg m [a]x) / (d m)
AAOk(a, g) == SumSq(a) > 0 /\ g.d > 0 /\ g.c * g.c + SumSq(a) * g.sg * g.sg = g.d * g.d
AxisRot(a, g) ==
    LET m == SumSq(a) IN
    Rat(AddM(AddM(Scal(g.c * m, Id(3)), Scal(g.d - g.c, Outer(a, a))), Scal(g.sg * m, CrossMat(a))), g.d * m)
\* rotation with linear part R about the point p: x |-> R (x - p) + p
About(R, p) == HomD(R, SubV(ScalV(R.d, p), MatVec(R.n, p)))

\* ==================================================== scale / shear / rotate / translate
\* M = T R Z S: scale first, then shear (upper unit-triangular: x-y, x-z, y-z), then the static
\* x, y, z Euler rotation, then translation.  Scales, shears, translation in quarter units.
ComposeRef(s4, sh4, ang, tr4) ==
    LET Z == <<<<4, sh4[1], sh4[2]>>, <<0, 4, sh4[3]>>, <<0, 0, 4>>>>
        R == EulerRef("sxyz", ang)
        L == Rat(Mul(R.n, Mul(Z, Diag(s4))), R.d * 16) IN
    HomD(L, ScalV(R.d * 4, tr4))

\* ====================================================================== 2-D
\* counter-clockwise (sense = 1) or clockwise (sense = -1) plane rotation
Rot2(a, sense) == LET t == Ang(a) IN Rat(<<<<t[1], -sense * t[2]>>, <<sense * t[2], t[1]>>>>, t[3])
\* offset applied after the rotation about the point p: x |-> R (x - p) + p + o
PlanarRef(a, o, p, sense) ==
    LET R == Rot2(a, sense) IN HomD(R, SubV(ScalV(R.d, AddV(o, p)), MatVec(R.n, p)))

\* image of integer point p under the affine homogeneous rational matrix M (numerators over M.d)
Image(M, p, translate) ==
    LET k == Len(p) IN [r \in 1..k |-> Dot(Sub(M.n, k)[r], p) + (IF translate THEN M.n[r][k + 1] ELSE 0)]

\* =========================================== self-consistency of the reference algebra
ASSUME Cardinality(Cube24) = 24
ASSUME \A A \in Cube24 : Det3(A) = 1 /\ Mul(A, Transpose(A)) = Id(3) /\ IsRotation3(Rat(A, 1))
ASSUME \A A, B \in Cube24 : Mul(A, B) \in Cube24
ASSUME Cardinality(ConvNames) = 24 /\ Cardinality({Conv[x] : x \in ConvNames}) = 24
ASSUME \A x \in ConvNames : LET t == Conv[x] IN t[2] # t[3] /\ t[3] # t[4] /\ t[1] \in {0, 1}
\* on the quarter-turn lattice every convention reaches the whole cube group and nothing else
ASSUME \A x \in ConvNames :
         {AsInt(EulerRef(x, <<K(a), K(b), K(c)>>)) : a, b, c \in 0..3} = Cube24
\* a rotating-frame sequence is the static sequence about the same axes taken in reverse order
ASSUME \A x, y \in ConvNames :
         (Conv[x][1] = 0 /\ Conv[y] = <<1, Conv[x][4], Conv[x][3], Conv[x][2]>>) =>
            \A a, b, c \in 0..3 : EulerRef(x, <<K(a), K(b), K(c)>>) = EulerRef(y, <<K(c), K(b), K(a)>>)
\* quaternions: 48 lattice quaternions, two per cube rotation, product is a homomorphism
ASSUME Cardinality(LatQ) = 48
ASSUME \A q \in LatQ : IsIntegral(QuatMat(q)) /\ AsInt(QuatMat(q)) \in Cube24
                       /\ REq(QuatMat(q), QuatMat(QNeg(q)))
ASSUME \A A \in Cube24 : Cardinality({q \in LatQ : AsInt(QuatMat(q)) = A}) = 2
ASSUME \A p, q \in LatQ : REq(QuatMat(QMul(p, q)), RMul(QuatMat(p), QuatMat(q)))
ASSUME \A q \in {<<1, 2, 2, 4>>, <<2, 3, 6, 0>>, <<2, 4, 5, 6>>, <<1, 2, 4, 10>>} :
         /\ IsRotation3(QuatMat(q))
         /\ REq(RMul(QuatMat(q), QuatMat(QConj(q))), RId(3))
         /\ \A p \in {<<1, 2, 2, 4>>, <<2, 3, 6, 0>>, <<1, 1, 0, 0>>} :
               REq(QuatMat(QMul(p, q)), RMul(QuatMat(p), QuatMat(q)))
\* quaternion (cos t/2, sin t/2 e_axis) and axis-angle about e_axis are the elementary rotations
ASSUME \A k \in 0..3 : /\ AxisRot(<<1, 0, 0>>, [c |-> Cos4(k), sg |-> Sin4(k), d |-> 1]).n = Rx(k)
                       /\ AxisRot(<<0, 1, 0>>, [c |-> Cos4(k), sg |-> Sin4(k), d |-> 1]).n = Ry(k)
                       /\ AxisRot(<<0, 0, 1>>, [c |-> Cos4(k), sg |-> Sin4(k), d |-> 1]).n = Rz(k)
ASSUME /\ AsInt(QuatMat(<<1, 1, 0, 0>>)) = Rx(1) /\ AsInt(QuatMat(<<1, 0, 1, 0>>)) = Ry(1)
       /\ AsInt(QuatMat(<<1, 0, 0, 1>>)) = Rz(1) /\ AsInt(QuatMat(<<0, 0, 0, 1>>)) = Rz(2)
\* thirds of a turn about a body diagonal and half turns about a face diagonal are cube rotations
ASSUME \A a \in {<<1, 1, 1>>, <<-1, 1, 1>>, <<1, -1, -1>>} : \A sg \in {1, -1} :
         LET R == AxisRot(a, [c |-> -1, sg |-> sg, d |-> 2]) IN IsIntegral(R) /\ AsInt(R) \in Cube24
ASSUME LET R == AxisRot(<<1, 1, 0>>, [c |-> -1, sg |-> 0, d |-> 1]) IN IsIntegral(R) /\ AsInt(R) \in Cube24
\* the axis is fixed, and reversing axis and angle together changes nothing
ASSUME \A a \in {<<1, 2, 2>>, <<1, 1, 1>>, <<0, 0, -1>>} :
         LET g == IF a = <<1, 2, 2>> THEN [c |-> 9, sg |-> 4, d |-> 15]
                  ELSE IF a = <<1, 1, 1>> THEN [c |-> -1, sg |-> 1, d |-> 2] ELSE [c |-> 3, sg |-> 4, d |-> 5]
             R == AxisRot(a, g) IN
         /\ AAOk(a, g) /\ IsRotation3(R) /\ MatVec(R.n, a) = ScalV(R.d, a)
         /\ REq(R, AxisRot(ScalV(-1, a), [g EXCEPT !.sg = -g.sg]))

\* half way between two unit quaternions of equal norm lies their normalised sum: the rotation from p
\* to the sum, applied twice, is the rotation from p to q
ASSUME \A p, q \in {x \in LatQ : SumSq(x) = 2} :
         Dot(p, q) \notin {2, -2} =>
            LET h == AddV(p, q)
                r == RMul(RT(QuatMat(p)), QuatMat(h)) IN
            REq(RMul(r, r), RMul(RT(QuatMat(p)), QuatMat(q)))
\* ============================================================ record predicates
\* a homogeneous 4x4 whose linear part is a rotation and whose translation is zero
PureRot4(M) == IsAffine(M, 3) /\ NoTranslation(M, 3)
UnitQ(q) == q.n > 0 /\ SumSq(q.v) = q.n          \* q.v / sqrt(q.n) is what the code returned
Angs3Ok(a) == Len(a) = 3 /\ \A k \in 1..3 : AngOk(a[k])

\* euler_matrix(ang, axes) -> M
OkEulerMatrix(c) ==
    IF ~Angs3Ok(c.ang) \/ c.axes \notin ConvNames THEN "BADINPUT"
    ELSE IF ~PureRot4(c.M) THEN "homogeneous_rotation_without_translation"
    ELSE IF ~IsRotation3(RSub(c.M, 3)) THEN "orthonormal_det_plus_one"
    ELSE IF ~REq(RSub(c.M, 3), EulerRef(c.axes, c.ang)) THEN "matrix_is_ordered_product_of_axis_rotations"
    ELSE "ok"

\* euler_from_matrix(M, axes) -> back ; M is the rotation of c.ang (when src = "euler": the floats
\* euler_matrix returned), an exact cube rotation, or an exact rational rotation
OkEulerFromMatrix(c) ==
    IF ~Angs3Ok(c.back) \/ c.axes \notin ConvNames THEN "BADINPUT"
    \* the matrix euler_matrix returned is already wrong (rejected in its own record): nothing to round-trip
    ELSE IF c.src = "euler" /\ ~(Angs3Ok(c.ang) /\ PureRot4(c.M) /\ REq(RSub(c.M, 3), EulerRef(c.axes, c.ang)))
         THEN "SKIP_upstream_result_already_rejected"
    ELSE IF ~PureRot4(c.M) \/ ~IsRotation3(RSub(c.M, 3)) THEN "BADINPUT"
    ELSE IF c.src = "cube" /\ ~(IsIntegral(c.M) /\ Sub(AsInt(c.M), 3) \in Cube24) THEN "BADINPUT"
    ELSE IF ~REq(EulerRef(c.axes, c.back), RSub(c.M, 3)) THEN "returned_angles_rebuild_the_rotation"
    ELSE "ok"

\* euler_matrix(*euler_from_matrix(QuatMat(q), axes), axes) -> R2   (angles irrational: matrix level)
OkEulerRoundTrip(c) ==
    IF c.axes \notin ConvNames \/ ~REq(c.M, Hom(QuatMat(c.q), <<0, 0, 0>>, 1)) THEN "BADINPUT"
    ELSE IF ~PureRot4(c.R2) \/ ~IsRotation3(RSub(c.R2, 3)) THEN "orthonormal_det_plus_one"
    ELSE IF ~REq(c.R2, c.M) THEN "euler_matrix_of_euler_from_matrix_is_the_matrix"
    ELSE "ok"

\* quaternion_from_euler(ang, axes) -> q
OkQuatFromEuler(c) ==
    IF ~Angs3Ok(c.ang) \/ c.axes \notin ConvNames THEN "BADINPUT"
    ELSE IF ~UnitQ(c.q) THEN "unit_norm"
    ELSE IF ~REq(QuatMat(c.q.v), EulerRef(c.axes, c.ang)) THEN "quaternion_and_euler_angles_same_rotation"
    ELSE "ok"

\* quaternion_matrix(quaternion_from_euler(ang, axes)) -> QM    (half angles irrational: matrix level)
OkQuatFromEulerM(c) ==
    IF ~Angs3Ok(c.ang) \/ c.axes \notin ConvNames THEN "BADINPUT"
    ELSE IF ~PureRot4(c.QM) THEN "homogeneous_rotation_without_translation"
    ELSE IF ~REq(RSub(c.QM, 3), EulerRef(c.axes, c.ang)) THEN "quaternion_and_euler_angles_same_rotation"
    ELSE "ok"

\* euler_from_quaternion(q/|q|, axes) -> back
OkEulerFromQuat(c) ==
    IF ~Angs3Ok(c.back) \/ c.axes \notin ConvNames \/ SumSq(c.q) = 0 THEN "BADINPUT"
    ELSE IF ~REq(EulerRef(c.axes, c.back), QuatMat(c.q)) THEN "returned_angles_rebuild_the_rotation"
    ELSE "ok"

\* quaternion_matrix(q/|q|) -> M
OkQuatMatrix(c) ==
    IF SumSq(c.q) = 0 THEN "BADINPUT"
    ELSE IF ~PureRot4(c.M) THEN "homogeneous_rotation_without_translation"
    ELSE IF ~IsRotation3(RSub(c.M, 3)) THEN "orthonormal_det_plus_one"
    ELSE IF ~REq(RSub(c.M, 3), QuatMat(c.q)) THEN "matrix_of_quaternion"
    ELSE IF ~REq(QuatMat(c.q), QuatMat(QNeg(c.q))) THEN "both_signs_same_rotation"
    ELSE "ok"

\* quaternion_from_matrix(M, isprecise) -> q
OkQuatFromMatrix(c) ==
    IF ~PureRot4(c.M) \/ ~IsRotation3(RSub(c.M, 3)) THEN "BADINPUT"
    ELSE IF ~UnitQ(c.q) THEN "unit_norm"
    ELSE IF ~REq(QuatMat(c.q.v), RSub(c.M, 3)) THEN "quaternion_describes_the_matrix"
    ELSE "ok"

\* quaternion_about_axis(angle, axis) -> q
OkQuatAboutAxis(c) ==
    IF ~AAOk(c.axis, c.g) THEN "BADINPUT"
    ELSE IF ~UnitQ(c.q) THEN "unit_norm"
    ELSE IF ~REq(QuatMat(c.q.v), AxisRot(c.axis, c.g)) THEN "quaternion_is_rotation_about_axis"
    ELSE "ok"

\* quaternion_multiply(q1/|q1|, q0/|q0|) -> r
OkQuatMultiply(c) ==
    IF SumSq(c.q1) = 0 \/ SumSq(c.q0) = 0 THEN "BADINPUT"
    ELSE IF ~UnitQ(c.r) THEN "unit_norm"
    ELSE IF ~REq(QuatMat(c.r.v), RMul(QuatMat(c.q1), QuatMat(c.q0))) THEN "product_maps_to_matrix_product"
    ELSE "ok"

\* quaternion_inverse / quaternion_conjugate (q/|q|) -> r
OkQuatInverse(c) ==
    IF SumSq(c.q) = 0 THEN "BADINPUT"
    ELSE IF ~UnitQ(c.r) THEN "unit_norm"
    ELSE IF ~REq(QuatMat(c.r.v), RT(QuatMat(c.q))) THEN "inverse_is_transposed_rotation"
    ELSE IF ~REq(RMul(QuatMat(c.r.v), QuatMat(c.q)), RId(3)) THEN "inverse_times_rotation_is_identity"
    ELSE "ok"

\* rotation_matrix(angle, axis, point) -> M     (pt = <<>> : no point)
OkRotationMatrix(c) ==
    IF ~AAOk(c.axis, c.g) \/ Len(c.pt) \notin {0, 3} THEN "BADINPUT"
    ELSE IF ~IsAffine(c.M, 3) THEN "homogeneous_form"
    ELSE IF ~IsRotation3(RSub(c.M, 3)) THEN "orthonormal_det_plus_one"
    ELSE IF ~REq(RSub(c.M, 3), AxisRot(c.axis, c.g)) THEN "matrix_is_rotation_about_axis"
    ELSE IF Len(c.pt) = 0 /\ ~NoTranslation(c.M, 3) THEN "no_translation_without_point"
    ELSE IF Len(c.pt) = 3 /\ ~VEq(Image(c.M, c.pt, TRUE), c.M.d, c.pt, 1) THEN "point_on_axis_is_fixed"
    ELSE IF Len(c.pt) = 3 /\ ~REq(c.M, About(AxisRot(c.axis, c.g), c.pt)) THEN "rotation_about_point"
    ELSE "ok"

\* rotation_from_matrix(M) -> angle, direction (snapped to axis + g), point;  R2 = rotation_matrix of those
OkRotationFromMatrix(c) ==
    IF ~IsAffine(c.M, 3) \/ ~IsRotation3(RSub(c.M, 3)) THEN "BADINPUT"
    ELSE IF ~AAOk(c.axis, c.g) THEN "unit_direction_and_angle"
    ELSE IF ~REq(AxisRot(c.axis, c.g), RSub(c.M, 3)) THEN "axis_angle_describe_the_rotation"
    ELSE IF ~REq(c.R2, c.M) THEN "rotation_matrix_of_returned_parameters_is_the_matrix"
    ELSE "ok"

PosScale(c) == \A k \in 1..3 : c.s4[k] > 0
\* compose_matrix(scale, shear, angles, translate) -> M
OkCompose(c) ==
    IF ~Angs3Ok(c.ang) \/ \E k \in 1..3 : c.s4[k] = 0 THEN "BADINPUT"
    ELSE IF ~IsAffine(c.M, 3) THEN "homogeneous_form"
    ELSE IF ~REq(c.M, ComposeRef(c.s4, c.sh4, c.ang, c.tr4)) THEN "matrix_is_translate_rotate_shear_scale"
    ELSE "ok"

\* decompose_matrix(M) -> os4, osh4, oang, otr4 where M is what compose_matrix returned for the
\* recorded factors (src = "composed": its floats, src = "exact": the exact rational matrix).
\* With positive scales the factorisation is unique; with a negative scale only the recomposition
\* is compared.
OkDecompose(c) ==
    IF ~Angs3Ok(c.ang) \/ ~Angs3Ok(c.oang) THEN "BADINPUT"
    \* the matrix compose_matrix returned is already wrong (rejected in its own record)
    ELSE IF ~REq(c.M, ComposeRef(c.s4, c.sh4, c.ang, c.tr4)) THEN "SKIP_upstream_result_already_rejected"
    ELSE IF PosScale(c) /\ c.os4 # c.s4 THEN "scale_returned"
    ELSE IF PosScale(c) /\ c.osh4 # c.sh4 THEN "shear_returned"
    ELSE IF c.otr4 # c.tr4 THEN "translation_returned"
    ELSE IF PosScale(c) /\ ~REq(EulerRef("sxyz", c.oang), EulerRef("sxyz", c.ang)) THEN "angles_describe_the_same_rotation"
    ELSE IF ~REq(ComposeRef(c.os4, c.osh4, c.oang, c.otr4), c.M) THEN "recomposed_factors_give_the_matrix"
    ELSE "ok"

\* transform_points(pts, M, translate) -> res  (res.n rows over res.d)
OkTransformPoints(c) ==
    LET k == c.dim IN
    IF ~IsAffine(c.M, k) \/ \E j \in 1..Len(c.pts) : Len(c.pts[j]) # k THEN "BADINPUT"
    ELSE IF c.res.d <= 0 \/ Len(c.res.n) # Len(c.pts) \/ \E j \in 1..Len(c.pts) : Len(c.res.n[j]) # k THEN "shape"
    ELSE IF \E j \in 1..Len(c.pts) : ~VEq(c.res.n[j], c.res.d, Image(c.M, c.pts[j], c.translate), c.M.d)
         THEN (IF c.translate THEN "homogeneous_multiplication" ELSE "linear_part_only_without_translation")
    ELSE "ok"

\* transform_around(M, p) -> res, M without translation: the map x |-> L (x - p) + p
OkTransformAround(c) ==
    LET k == c.dim IN
    IF ~IsAffine(c.M, k) \/ ~NoTranslation(c.M, k) \/ Len(c.p) # k THEN "BADINPUT"
    ELSE IF ~IsAffine(c.res, k) THEN "homogeneous_form"
    ELSE IF ~VEq(Image(c.res, c.p, TRUE), c.res.d, c.p, 1) THEN "point_is_fixed"
    ELSE IF ~REq(RSub(c.res, k), RSub(c.M, k)) THEN "linear_part_kept"
    ELSE IF ~REq(c.res, RMul(Trans(c.p), RMul(c.M, Trans(ScalV(-1, c.p))))) THEN "conjugation_by_translation"
    ELSE "ok"

\* planar_matrix(offset, theta, point) -> res (3x3); sc = <<>>.  The sense of rotation is not part of
\* the property: either sense is accepted.  With sc given (and nothing else) res = diag(sc, 1).
OkPlanar(c) ==
    IF ~AngOk(c.th) \/ Len(c.o) # 2 \/ Len(c.pt) \notin {0, 2} THEN "BADINPUT"
    ELSE IF ~IsAffine(c.res, 2) THEN "homogeneous_form"
    ELSE IF Len(c.sc) > 0 THEN
         (IF REq(c.res, Hom(Rat(Diag(c.sc), 2), <<0, 0>>, 1)) THEN "ok" ELSE "scale_only_matrix")
    ELSE IF ~IsRotation2(RSub(c.res, 2)) THEN "orthonormal_det_plus_one"
    ELSE IF Len(c.pt) = 2 /\ c.o = <<0, 0>> /\ ~VEq(Image(c.res, c.pt, TRUE), c.res.d, c.pt, 1) THEN "point_is_fixed"
    ELSE LET p == IF Len(c.pt) = 2 THEN c.pt ELSE <<0, 0>> IN
         IF ~(REq(c.res, PlanarRef(c.th, c.o, p, 1)) \/ REq(c.res, PlanarRef(c.th, c.o, p, -1)))
         THEN "offset_after_rotation_by_theta_about_point" ELSE "ok"

\* planar_matrix_to_3D(M2) -> res
OkPlanarTo3D(c) ==
    IF ~IsAffine(c.M2, 2) THEN "SKIP_upstream_result_already_rejected"
    ELSE IF ~IsAffine(c.res, 3) THEN "homogeneous_form"
    ELSE IF \E p \in {<<0, 0>>, <<1, 0>>, <<0, 1>>, <<2, -3>>} : \E z \in {0, 5} :
              LET im2 == Image(c.M2, p, TRUE)
                  im3 == Image(c.res, <<p[1], p[2], z>>, TRUE) IN
              ~VEq(im3, c.res.d, <<im2[1], im2[2], z * c.M2.d>>, c.M2.d)
         THEN "acts_on_xy_like_the_planar_matrix_and_keeps_z"
    ELSE "ok"

\* align_vectors(a, b) -> res : a produced rotation matrix
OkAlign(c) ==
    IF ~IsAffine(c.res, 3) \/ ~NoTranslation(c.res, 3) THEN "homogeneous_rotation_without_translation"
    ELSE IF ~IsRotation3(RSub(c.res, 3)) THEN "orthonormal_det_plus_one"
    ELSE "ok"

\* =============================================================== audit families
\* (inputs outside the quarter-turn / Pythagorean lattice of the first build: near-identity matrices on
\* large coordinates, matrices carrying rounding noise, small angles, optional arguments, produced
\* rotations with irrational entries whose Gram matrix / determinant / images the harness snapped)

\* transform_points(pts, I + 2^-sh J, translate) with integer points: delta = (res - pts) 2^sh.
\* J is k x (k+1): the last column is the (scaled) translation.
OkTransformPointsNI(c) ==
    LET k == c.dim  J == Rat(c.J, 1) IN
    IF Len(c.J) # k \/ (\E r \in 1..k : Len(c.J[r]) # k + 1) \/ (\E j \in 1..Len(c.pts) : Len(c.pts[j]) # k)
       THEN "BADINPUT"
    ELSE IF Len(c.delta) # Len(c.pts) THEN "shape"
    ELSE IF \E j \in 1..Len(c.pts) : c.delta[j] # Image(J, c.pts[j], c.translate)
         THEN (IF c.translate THEN "homogeneous_multiplication_by_near_identity_matrix"
               ELSE "linear_part_only_of_near_identity_matrix")
    ELSE "ok"

\* euler_matrix(*euler_from_matrix(M', axes), axes) -> R2 where M' is the exact rotation M presented with
\* rounding noise of a few ulp, as a list, a 3x3 block, ...   (q = <<>>: M is a cube rotation)
OkEulerRoundTripM(c) ==
    IF c.axes \notin ConvNames \/ ~PureRot4(c.M) THEN "BADINPUT"
    ELSE IF Len(c.q) = 4 /\ ~REq(c.M, Hom(QuatMat(c.q), <<0, 0, 0>>, 1)) THEN "BADINPUT"
    ELSE IF Len(c.q) = 0 /\ ~(IsIntegral(c.M) /\ Sub(AsInt(c.M), 3) \in Cube24) THEN "BADINPUT"
    ELSE IF ~PureRot4(c.R2) THEN "homogeneous_rotation_without_translation"
    ELSE IF ~REq(c.R2, c.M) THEN "euler_matrix_of_euler_from_matrix_is_the_matrix"
    ELSE "ok"

\* rotation_matrix(*rotation_from_matrix(M)) -> R2, M the rotation of the integer quaternion q about pt
OkRotationRoundTripQ(c) ==
    IF SumSq(c.q) = 0 \/ Len(c.pt) \notin {0, 3} THEN "BADINPUT"
    ELSE IF ~REq(c.M, IF Len(c.pt) = 0 THEN Hom(QuatMat(c.q), <<0, 0, 0>>, 1) ELSE About(QuatMat(c.q), c.pt))
         THEN "BADINPUT"
    ELSE IF ~IsAffine(c.R2, 3) THEN "homogeneous_form"
    ELSE IF ~REq(c.R2, c.M) THEN "rotation_matrix_of_returned_parameters_is_the_matrix"
    ELSE "ok"

\* scale_and_translate(scale, translate): "compose_matrix for just scaling then translating"
OkScaleAndTranslate(c) ==
    IF Len(c.s4) # 3 \/ Len(c.tr4) # 3 THEN "BADINPUT"
    ELSE IF ~IsAffine(c.M, 3) THEN "homogeneous_form"
    ELSE IF ~REq(c.M, ComposeRef(c.s4, <<0, 0, 0>>, <<K(0), K(0), K(0)>>, c.tr4))
         THEN "equals_compose_matrix_of_the_same_scale_and_translation"
    ELSE "ok"

\* scene.transforms.kwargs_to_matrix(quaternion | axis, angle | nothing, translation) -> M
OkKwargs(c) ==
    LET R == CASE c.kind = "quat" -> QuatMat(c.q) [] c.kind = "axis" -> AxisRot(c.axis, c.g) [] OTHER -> RId(3) IN
    IF (c.kind = "quat" /\ SumSq(c.q) = 0) \/ (c.kind = "axis" /\ ~AAOk(c.axis, c.g)) \/ Len(c.tr) # 3 THEN "BADINPUT"
    ELSE IF ~IsAffine(c.M, 3) THEN "homogeneous_form"
    ELSE IF ~IsRotation3(RSub(c.M, 3)) THEN "orthonormal_det_plus_one"
    ELSE IF ~REq(c.M, Hom(R, c.tr, 1)) THEN "matrix_of_the_given_representation_then_translation"
    ELSE "ok"

\* quaternion_slerp(q0/|q0|, q1/|q1|, f2/2, 0, shortest) -> r for |q0| = |q1|: the end points, and half way
\* the normalised sum (of q0 and -q1 when the shorter way round is asked for and q0.q1 < 0)
OkSlerp(c) ==
    LET d == Dot(c.q0, c.q1)  n == SumSq(c.q0)
        mid == IF d = n \/ d = -n THEN c.q0
               ELSE IF c.shortest /\ d < 0 THEN SubV(c.q0, c.q1) ELSE AddV(c.q0, c.q1)
        want == CASE c.f2 = 0 -> c.q0 [] c.f2 = 2 -> c.q1 [] OTHER -> mid IN
    IF n = 0 \/ SumSq(c.q1) # n \/ c.f2 \notin {0, 1, 2} THEN "BADINPUT"
    ELSE IF ~UnitQ(c.r) THEN "unit_norm"
    \* orthogonal quaternions: both ways round are equally short, either half-way rotation is accepted
    ELSE IF c.f2 = 1 /\ d = 0 /\ c.shortest /\ REq(QuatMat(c.r.v), QuatMat(SubV(c.q0, c.q1))) THEN "ok"
    ELSE IF ~REq(QuatMat(c.r.v), QuatMat(want)) THEN "interpolated_rotation"
    ELSE "ok"

\* geometry.align_vectors(a, b[, return_angle]) -> T with |a| = la, |b| = lb integers;
\* gram = T33 T33^T, det, last row, translation column and img = lb T33 a snapped by the harness
OkAlignG(c) ==
    IF c.la <= 0 \/ c.lb <= 0 \/ c.la * c.la # SumSq(c.a) \/ c.lb * c.lb # SumSq(c.b) THEN "BADINPUT"
    ELSE IF c.last # <<0, 0, 0, 1>> \/ c.tcol # <<0, 0, 0>> THEN "homogeneous_rotation_without_translation"
    ELSE IF c.gram # Id(3) \/ c.det # 1 THEN "orthonormal_det_plus_one"
    ELSE IF c.img # ScalV(c.la, c.b) THEN "rotates_a_onto_b"
    ELSE "ok"

\* geometry.plane_transform(origin, normal) -> T: normal goes to +z, plane points go to height 0
OkPlaneTransform(c) ==
    IF c.ln <= 0 \/ c.ln * c.ln # SumSq(c.n) \/ Dot(c.n, c.u) # 0 THEN "BADINPUT"
    ELSE IF c.last # <<0, 0, 0, 1>> THEN "homogeneous_form"
    ELSE IF c.gram # Id(3) \/ c.det # 1 THEN "orthonormal_det_plus_one"
    ELSE IF c.imgn # <<0, 0, c.ln>> THEN "normal_goes_to_z"
    ELSE IF c.z # <<0, 0>> THEN "plane_goes_to_height_zero"
    ELSE "ok"

\* random_rotation_matrix / random_quaternion: every produced matrix is a rotation, every quaternion a unit
OkRandomRotation(c) ==
    IF Len(c.grams) # c.num \/ Len(c.dets) # c.num \/ Len(c.qq) # c.num THEN "count"
    ELSE IF \E j \in 1..c.num : c.lasts[j] # <<0, 0, 0, 1, 0, 0, 0>> THEN "homogeneous_rotation_without_translation"
    ELSE IF \E j \in 1..c.num : c.grams[j] # Id(3) \/ c.dets[j] # 1 THEN "orthonormal_det_plus_one"
    ELSE IF \E j \in 1..c.num : c.qq[j] # 1 THEN "unit_norm"
    ELSE "ok"

\* fix_rigid(M + noise below max_deviance) -> orthonormal again, translation kept, within 1e-5 of its input
OkFixRigid(c) ==
    LET k == c.dim IN
    IF ~IsAffine(c.M, k) THEN "BADINPUT"
    ELSE IF c.last # [j \in 1..(k + 1) |-> IF j = k + 1 THEN 1 ELSE 0] THEN "homogeneous_form"
    ELSE IF c.gram # Id(k) \/ c.det # 1 THEN "orthonormal_det_plus_one"
    ELSE IF c.tr # TransCol(c.M, k) THEN "translation_kept"
    ELSE IF c.dev5 # 0 THEN "close_to_the_input"
    ELSE "ok"

\* is_rigid(M) on exact matrices: rotations with translation are rigid, scalings and shears are not
IsOrthogonal3(A) == A.d > 0 /\ IsSquare(A.n, 3) /\ Mul(A.n, Transpose(A.n)) = Scal(A.d * A.d, Id(3))
OkIsRigid(c) ==
    IF ~IsAffine(c.M, 3) THEN "BADINPUT"
    ELSE IF c.res # IsOrthogonal3(RSub(c.M, 3)) THEN "rigid_iff_linear_part_orthonormal"
    ELSE "ok"

Clause(c) ==
    CASE c.fn = "euler_matrix" -> OkEulerMatrix(c)
      [] c.fn = "euler_from_matrix" -> OkEulerFromMatrix(c)
      [] c.fn = "euler_roundtrip" -> OkEulerRoundTrip(c)
      [] c.fn = "quaternion_from_euler" -> OkQuatFromEuler(c)
      [] c.fn = "quaternion_from_euler_m" -> OkQuatFromEulerM(c)
      [] c.fn = "euler_from_quaternion" -> OkEulerFromQuat(c)
      [] c.fn = "quaternion_matrix" -> OkQuatMatrix(c)
      [] c.fn = "quaternion_from_matrix" -> OkQuatFromMatrix(c)
      [] c.fn = "quaternion_about_axis" -> OkQuatAboutAxis(c)
      [] c.fn = "quaternion_multiply" -> OkQuatMultiply(c)
      [] c.fn = "quaternion_inverse" -> OkQuatInverse(c)
      [] c.fn = "quaternion_conjugate" -> OkQuatInverse(c)
      [] c.fn = "rotation_matrix" -> OkRotationMatrix(c)
      [] c.fn = "rotation_from_matrix" -> OkRotationFromMatrix(c)
      [] c.fn = "compose_matrix" -> OkCompose(c)
      [] c.fn = "decompose_matrix" -> OkDecompose(c)
      [] c.fn = "transform_points" -> OkTransformPoints(c)
      [] c.fn = "transform_around" -> OkTransformAround(c)
      [] c.fn = "planar_matrix" -> OkPlanar(c)
      [] c.fn = "planar_matrix_to_3D" -> OkPlanarTo3D(c)
      [] c.fn = "align_vectors" -> OkAlign(c)
      [] c.fn = "transform_points_ni" -> OkTransformPointsNI(c)
      [] c.fn = "euler_roundtrip_m" -> OkEulerRoundTripM(c)
      [] c.fn = "rotation_roundtrip_q" -> OkRotationRoundTripQ(c)
      [] c.fn = "scale_and_translate" -> OkScaleAndTranslate(c)
      [] c.fn = "kwargs_to_matrix" -> OkKwargs(c)
      [] c.fn = "quaternion_slerp" -> OkSlerp(c)
      [] c.fn = "align_g" -> OkAlignG(c)
      [] c.fn = "plane_transform" -> OkPlaneTransform(c)
      [] c.fn = "random_rotation" -> OkRandomRotation(c)
      [] c.fn = "fix_rigid" -> OkFixRigid(c)
      [] c.fn = "is_rigid" -> OkIsRigid(c)
      [] c.fn = "spherical_matrix" -> OkEulerMatrix(c)
      [] OTHER -> "unknown_function"

Init == i = 1
Next == i < Len(Cases) /\ i' = i + 1
\* a returned float that is not on the exact lattice (listed in c.off) cannot be the exact value
\* Second half of a round trip whose first half (the matrix the implementation produced and that
\* was fed back in) is already rejected in its own record: not judged again.
Upstream(c) ==
    CASE c.fn = "decompose_matrix" -> ~(Angs3Ok(c.ang) /\ REq(c.M, ComposeRef(c.s4, c.sh4, c.ang, c.tr4)))
      [] c.fn = "euler_from_matrix" /\ c.src = "euler" ->
             ~(Angs3Ok(c.ang) /\ c.axes \in ConvNames /\ PureRot4(c.M) /\ REq(RSub(c.M, 3), EulerRef(c.axes, c.ang)))
      [] c.fn = "planar_matrix_to_3D" -> ~IsAffine(c.M2, 2)
      [] OTHER -> FALSE
Report == LET c == Cases[i]
              cl == IF Upstream(c) THEN "SKIP_upstream_result_already_rejected"
                    ELSE IF c.exc # "" THEN "raised_" \o c.exc
                    ELSE IF Len(c.off) > 0 THEN "offlattice_" \o c.off[1].where
                    ELSE Clause(c)
          IN IF cl # "ok" THEN PrintT(<<"REJECT", c.id, cl>>) ELSE TRUE

\* internal sanity of the reference on the recorded inputs: what the spec expects is itself a rotation
RefSane == LET c == Cases[i] IN
           /\ (c.fn \in {"euler_matrix", "quaternion_from_euler", "quaternion_from_euler_m", "spherical_matrix"} /\ c.axes \in ConvNames
                  /\ Angs3Ok(c.ang)) => IsRotation3(EulerRef(c.axes, c.ang))
           /\ (c.fn \in {"quaternion_matrix", "euler_from_quaternion", "quaternion_inverse"} /\ SumSq(c.q) > 0)
                  => IsRotation3(QuatMat(c.q))
           /\ (c.fn \in {"quaternion_about_axis", "rotation_matrix"} /\ AAOk(c.axis, c.g))
                  => IsRotation3(AxisRot(c.axis, c.g))
=============================================================================
