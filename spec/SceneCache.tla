----------------------------- MODULE SceneCache -----------------------------
(***************************************************************************)
(* Composition layer: a Scene's memoised quantities (bounds, triangles,    *)
(* area, volume, ...) are keyed on a hash composed from the scene graph's  *)
(* hash and the hash of every geometry; geometries may be shared by        *)
(* several nodes and edited in place through any reference; the graph has  *)
(* its own manual dirty memo (SceneGraph.tla).  Properties C10 / C01 / C09 *)
(* meet here: whatever interleaving of reads, in-place geometry edits,     *)
(* geometry replacement, edge updates, instance additions and deletions,   *)
(* a scene-level read returns the value for the CURRENT placement.         *)
(*                                                                         *)
(*   gver[g]   byte version of geometry g (0 = absent)                     *)
(*   xver      version of the graph content (edges, node -> geometry)      *)
(*   hmemo     graph hash memo (-1 = dirty), as in SceneGraph.tla          *)
(*   idcur     the composed id the scene cache believes it is for          *)
(*   ent[q]    composed id the cached quantity q was computed for, or None *)
(***************************************************************************)
EXTENDS Integers, Sequences, FiniteSets, TLC, Json

CONSTANTS Geoms, Quantities, MaxDepth,
          GraphForgetsDirty   \* self-test switch: a graph mutator that does not reset the hash memo

VARIABLES gver, xver, hmemo, idcur, ent, last, hist
vars == <<gver, xver, hmemo, idcur, ent, last, hist>>
None == <<>>
Log(r) == hist' = Append(hist, r)

GraphHash == IF hmemo # -1 THEN hmemo ELSE xver
Composed == <<GraphHash, gver>>                 \* Scene.__hash__: graph hash + every geometry hash
TrueId == <<xver, gver>>

Init == /\ gver = [g \in Geoms |-> 1] /\ xver = 0 /\ hmemo = -1 /\ idcur = None
        /\ ent = [q \in Quantities |-> None] /\ last = <<>> /\ hist = <<>>

Read(q) ==
    LET id == Composed
        cur == IF idcur = id THEN ent ELSE [x \in Quantities |-> None]
        val == IF cur[q] # None THEN cur[q] ELSE TrueId     \* recomputed from the current data
    IN /\ hmemo' = GraphHash /\ idcur' = id
       /\ ent' = [cur EXCEPT ![q] = IF cur[q] # None THEN cur[q] ELSE TrueId]
       /\ last' = [q |-> q, got |-> val, want |-> TrueId]
       /\ UNCHANGED <<gver, xver>>
       /\ Log([op |-> "read", q |-> q])

\* in-place edit of a geometry's vertices through any reference (tracked array: its hash moves)
EditGeometry(g) == /\ gver[g] > 0 /\ gver' = [gver EXCEPT ![g] = @ + 1]
                   /\ UNCHANGED <<xver, hmemo, idcur, ent>> /\ last' = <<>>
                   /\ Log([op |-> "edit_geometry", g |-> g])
\* graph mutators (update edge, add instance node, remove node): content changes, memo reset
GraphOp(kind) == /\ xver' = xver + 1
                 /\ hmemo' = IF GraphForgetsDirty THEN hmemo ELSE -1
                 /\ UNCHANGED <<gver, idcur, ent>> /\ last' = <<>>
                 /\ Log([op |-> kind])
DeleteGeometry(g) == /\ gver[g] > 0 /\ Cardinality({x \in Geoms : gver[x] > 0}) > 1
                     /\ gver' = [gver EXCEPT ![g] = 0] /\ xver' = xver + 1
                     /\ hmemo' = IF GraphForgetsDirty THEN hmemo ELSE -1
                     /\ UNCHANGED <<idcur, ent>> /\ last' = <<>>
                     /\ Log([op |-> "delete_geometry", g |-> g])

Next == /\ Len(hist) < MaxDepth
        /\ \/ \E q \in Quantities : Read(q)
           \/ \E g \in Geoms : EditGeometry(g) \/ DeleteGeometry(g)
           \/ \E k \in {"update_edge", "add_instance", "reparent"} : GraphOp(k)
Spec == Init /\ [][Next]_vars

NoStaleSceneRead == last # <<>> => last.got = last.want
View == <<[g \in Geoms |-> gver[g] > 0], hmemo = -1, hmemo = xver, idcur = Composed,
          [q \in Quantities |-> IF ent[q] = None THEN 0 ELSE IF ent[q] = TrueId THEN 1 ELSE 2], last # <<>> /\ last.got # last.want>>
EmitLeaf == (Len(hist) = MaxDepth) => PrintT(ToJson(hist))
G2 == {"box", "tet"}
Q3 == {"bounds", "triangles", "measures"}
=============================================================================
