--------------------------- MODULE SceneGraph ---------------------------
(***************************************************************************)
(* trimesh.scene.transforms.SceneGraph / EnforcedForest  (property C09).   *)
(*                                                                         *)
(* Two layers in one module (DESIGN 2.2):                                  *)
(*   - property level: RefGet(a,b), a function of the current forest only  *)
(*     (parent, and the matrix stored on the edge (parent[v], v));         *)
(*   - implementation shaped: the dictionaries the code keeps              *)
(*     (edge_data, node_data, parents), the path cache of EnforcedForest,  *)
(*     the manual `_hash` dirty memo and the hash-keyed transform cache,   *)
(*     one action per public mutator / reader, written the way the code is *)
(*     written, with the discovered deviations as named switches.          *)
(* Matrices are exact elements of SE(2,Z): <<k,x,y>> = rotate k*90 degrees *)
(* about z, then translate by (x,y).  The group is non-commutative, so     *)
(* order and inversion mistakes are visible.                               *)
(***************************************************************************)
EXTENDS Integers, Sequences, FiniteSets, TLC, Json

CONSTANTS Nodes,        \* universe of frame names (strings)
          Base0,        \* initial base frame
          Gens,         \* matrices offered to Update
          GeomNames,    \* geometry names that can be attached to a node
          MaxDepth,     \* bound on history length
          InitShape,    \* "empty", or "chain": start from the forest Base0 -> n1 -> n2 -> ... already built
          Ghost,        \* TRUE: re-parenting leaves the old (parent,child) edge entry (as found in 4.6.5)
          ForgetDirty,  \* TRUE: mutators do not reset the hash memo (spec self-test mutant)
          KeepPaths     \* TRUE: path cache never cleared (spec self-test mutant)

VARIABLES parent,   \* [Nodes -> Nodes \cup {"-"}]        EnforcedForest.parents
          edge,     \* [Nodes \X Nodes -> Mat \cup {NoM}]  EnforcedForest.edge_data[(u,v)]["matrix"]
          present,  \* SUBSET Nodes                        keys of EnforcedForest.node_data
          geom,     \* [Nodes -> GeomNames \cup {"-"}]     node_data[n]["geometry"]
          base,     \* SceneGraph.base_frame
          pcache,   \* set of records [k |-> <<u,v>>, p |-> path]   EnforcedForest._cache
          hmemo,    \* memoised hash (a version) or -1 when dirty    EnforcedForest._hash
          ver,      \* version of the true content (what a recomputed hash identifies)
          xid,      \* caching.Cache.id_current of SceneGraph._cache
          xcache,   \* set of records [k |-> <<from,to>>, m |-> Mat, g |-> geom]
          lastq,    \* result of the last Get:  <<>> or [a, b, got, g, err]
          hist      \* history (generation / replay only; hidden by VIEW when checking)

vars == <<parent, edge, present, geom, base, pcache, hmemo, ver, xid, xcache, lastq, hist>>
\* versions only matter through these relations (bisimulation quotient used as TLC VIEW)
View == <<parent, edge, present, geom, base, pcache,
          IF hmemo = -1 THEN 0 ELSE IF hmemo = ver THEN 1 ELSE 2,
          xid = (IF hmemo # -1 THEN hmemo ELSE ver), xcache, lastq>>

None == "-"
NoM  == <<>>
Id   == <<0, 0, 0>>
Pairs == Nodes \X Nodes

\* ---------------------------------------------------------------- SE(2,Z)
RotV(k, x, y) == CASE k = 0 -> <<x, y>> [] k = 1 -> <<-y, x>>
                   [] k = 2 -> <<-x, -y>> [] k = 3 -> <<y, -x>>
Mul(a, b) == LET r == RotV(a[1], b[2], b[3]) IN <<(a[1] + b[1]) % 4, a[2] + r[1], a[3] + r[2]>>
Inv(a)    == LET k == (4 - a[1]) % 4  r == RotV(k, a[2], a[3]) IN <<k, -r[1], -r[2]>>

\* ------------------------------------------------- property-level reference
RECURSIVE Anc(_, _)
Anc(n, k) == IF k = 0 \/ parent[n] = None THEN {n} ELSE {n} \cup Anc(parent[n], k - 1)
AncSet(n) == Anc(n, Cardinality(Nodes))
RootOf(n) == CHOOSE r \in AncSet(n) : parent[r] = None \/ parent[r] \notin Nodes

RECURSIVE ToRootK(_, _)
ToRootK(n, k) == IF k = 0 \/ parent[n] = None THEN Id
                 ELSE Mul(ToRootK(parent[n], k - 1), edge[<<parent[n], n>>])
ToRoot(n) == ToRootK(n, Cardinality(Nodes))

Acyclic == \A n \in Nodes : \E r \in AncSet(n) : parent[r] = None
Connected(a, b) == a \in present /\ b \in present /\ RootOf(a) = RootOf(b)
\* get(frame_to = b, frame_from = a): coordinates in b's frame expressed in a's frame
RefGet(a, b) == Mul(Inv(ToRoot(a)), ToRoot(b))

\* --------------------------------------------- implementation-shaped helpers
\* EnforcedForest.shortest_path(u, v): bidirectional walk over `parents`, result memoised per (u,v)
RECURSIVE Chain(_, _)
Chain(n, k) == IF k = 0 \/ n = None THEN <<>> ELSE <<n>> \o Chain(parent[n], k - 1)
UpChain(n) == Chain(n, Cardinality(Nodes) + 1)          \* n, parent[n], ... up to its root
Rev(s) == [i \in 1..Len(s) |-> s[Len(s) + 1 - i]]
IndexOf(s, e) == CHOOSE i \in 1..Len(s) : s[i] = e
InSeq(s, e) == \E i \in 1..Len(s) : s[i] = e
WalkPath(u, v) ==                                           \* path u ... v through the common ancestor
    LET fu == UpChain(u)  fv == UpChain(v)
        link == fu[CHOOSE i \in 1..Len(fu) : InSeq(fv, fu[i]) /\ \A j \in 1..(i-1) : ~InSeq(fv, fu[j])]
    IN  SubSeq(fu, 1, IndexOf(fu, link)) \o Rev(SubSeq(fv, 1, IndexOf(fv, link) - 1))
HasWalk(u, v) == \E i \in 1..Len(UpChain(u)) : InSeq(UpChain(v), UpChain(u)[i])

CachedPath(u, v) ==
    IF \E c \in pcache : c.k = <<u, v>> THEN (CHOOSE c \in pcache : c.k = <<u, v>>).p
    ELSE IF \E c \in pcache : c.k = <<v, u>> THEN Rev((CHOOSE c \in pcache : c.k = <<v, u>>).p)
    ELSE <<>>

\* product of the matrices along a node path, exactly as SceneGraph.get forms it
RECURSIVE PathProd(_, _)
PathProd(p, i) ==
    IF i >= Len(p) THEN Id
    ELSE LET x == p[i]  y == p[i + 1]
             m == IF edge[<<x, y>>] # NoM THEN edge[<<x, y>>]
                  ELSE IF edge[<<y, x>>] # NoM THEN Inv(edge[<<y, x>>]) ELSE Id
         IN Mul(m, PathProd(p, i + 1))
PathOK(p) == \A i \in 1..(Len(p) - 1) : edge[<<p[i], p[i+1]>>] # NoM \/ edge[<<p[i+1], p[i]>>] # NoM

\* EnforcedForest.__hash__ : memo unless dirty
HashNow == IF hmemo # -1 THEN hmemo ELSE ver
Touch   == /\ ver' = ver + 1                                     \* content changed
           /\ hmemo' = IF ForgetDirty THEN hmemo ELSE -1          \* self._hash = None
NoTouch == UNCHANGED <<ver, hmemo>>

Log(rec) == hist' = Append(hist, rec)

\* ---------------------------------------------------------------- actions
\* a fixed chain through all nodes (in CHOOSE order) hanging from Base0, every edge the first generator
ChainOrder == LET RECURSIVE Ord(_)
                  Ord(S) == IF S = {} THEN <<>> ELSE LET x == CHOOSE x \in S : TRUE IN <<x>> \o Ord(S \ {x})
              IN <<Base0>> \o Ord(Nodes \ {Base0})
ChainParent == [n \in Nodes |-> IF n = Base0 THEN None
                                ELSE ChainOrder[(CHOOSE k \in 1..Len(ChainOrder) : ChainOrder[k] = n) - 1]]
G0 == CHOOSE m \in Gens : TRUE
Init == /\ parent = IF InitShape = "chain" THEN ChainParent ELSE [n \in Nodes |-> None]
        /\ edge = [p \in Pairs |-> IF InitShape = "chain" /\ ChainParent[p[2]] = p[1] THEN G0 ELSE NoM]
        /\ present = IF InitShape = "chain" THEN Nodes ELSE {}
        /\ geom = [n \in Nodes |-> None]
        /\ base = Base0
        /\ pcache = {} /\ hmemo = -1 /\ ver = 0 /\ xid = -1 /\ xcache = {}
        /\ lastq = <<>> /\ hist = <<>>

\* SceneGraph.update(frame_to = v, frame_from = u, matrix = m [, geometry = g])
\*   -> EnforcedForest.add_edge(u, v, matrix = m [, geometry = g])
Update(u, v, m, g) ==
    /\ u # v /\ u \notin {x \in Nodes : v \in AncSet(x)}       \* stays a forest (the property's scope)
    /\ LET known     == edge[<<u, v>>] # NoM
           \* add_edge: "matrix and geometry are identical -> return False" (taken before parents[v] = u).
           \* SceneGraph.update attaches the geometry to the node afterwards in either branch.
           unchanged == known /\ edge[<<u, v>>] = m
           geomNew   == IF g # None THEN [geom EXCEPT ![v] = g] ELSE geom
       IN IF unchanged
          THEN /\ UNCHANGED <<parent, edge, pcache>>
               /\ present' = present \cup {u, v}
               /\ geom' = geomNew
               /\ ver' = IF geomNew # geom THEN ver + 1 ELSE ver
               /\ hmemo' = IF ForgetDirty THEN hmemo ELSE -1    \* add_edge resets _hash first
          ELSE /\ parent' = [parent EXCEPT ![v] = u]
               /\ edge' = [p \in Pairs |->
                             IF p = <<u, v>> THEN m
                             ELSE IF ~Ghost /\ p[2] = v /\ p[1] = parent[v] THEN NoM   \* drop old parent edge
                             ELSE edge[p]]
               /\ present' = present \cup {u, v}
               /\ geom' = geomNew
               /\ pcache' = IF KeepPaths \/ known THEN pcache ELSE {}   \* cleared only for a new key
               /\ Touch
    /\ UNCHANGED <<base, xid, xcache>>
    /\ lastq' = <<>>
    /\ Log([op |-> "update", u |-> u, v |-> v, m |-> m, g |-> g])

\* EnforcedForest.remove_node(u)  (via Scene.delete_geometry / graph.transforms.remove_node)
RemoveNode(u) ==
    /\ u \in present
    /\ parent' = [n \in Nodes |-> IF n = u \/ parent[n] = u THEN None ELSE parent[n]]
    /\ edge' = [p \in Pairs |-> IF p[1] = u \/ p[2] = u THEN NoM ELSE edge[p]]
    /\ present' = present \ {u}
    /\ geom' = [geom EXCEPT ![u] = None]
    /\ pcache' = IF KeepPaths THEN pcache ELSE {}
    /\ Touch
    /\ UNCHANGED <<base, xid, xcache>>
    /\ lastq' = <<>>
    /\ Log([op |-> "remove", u |-> u])

\* SceneGraph.remove_geometries({g})
RemoveGeometry(g) ==
    /\ \E n \in Nodes : geom[n] = g
    /\ geom' = [n \in Nodes |-> IF geom[n] = g THEN None ELSE geom[n]]
    /\ Touch
    /\ UNCHANGED <<parent, edge, present, base, pcache, xid, xcache>>
    /\ lastq' = <<>>
    /\ Log([op |-> "remove_geometry", g |-> g])

SetBase(b) ==
    /\ b # base /\ base' = b
    /\ UNCHANGED <<parent, edge, present, geom, pcache, hmemo, ver, xid, xcache>>
    /\ lastq' = <<>>
    /\ Log([op |-> "set_base", b |-> b])

\* SceneGraph.get(frame_to = b, frame_from = a)   (a = "-" means "use base_frame")
Get(a0, b) ==
    LET a == IF a0 = None THEN base ELSE a0
        h == HashNow
        \* Cache.__contains__ -> verify(): dump everything when the id moved
        valid == IF xid = h THEN xcache ELSE {}
        hit == \E c \in valid : c.k = <<a, b>>
    IN
    /\ a \in present /\ b \in present            \* unknown frames are exercised by the harness, not here
    /\ hmemo' = h /\ xid' = h /\ UNCHANGED <<ver, parent, edge, present, geom, base>>
    /\ IF hit
       THEN LET c == CHOOSE c \in valid : c.k = <<a, b>> IN
            /\ xcache' = valid /\ pcache' = pcache
            /\ lastq' = [a |-> a, b |-> b, got |-> c.m, g |-> c.g, err |-> FALSE]
       ELSE IF a = b \/ edge[<<a, b>>] # NoM
       THEN LET m == IF a = b THEN Id ELSE edge[<<a, b>>] IN
            /\ xcache' = valid \cup {[k |-> <<a, b>>, m |-> m, g |-> geom[b]]}
            /\ pcache' = pcache
            /\ lastq' = [a |-> a, b |-> b, got |-> m, g |-> geom[b], err |-> FALSE]
       ELSE LET cp == CachedPath(a, b)
                p  == IF cp # <<>> THEN cp ELSE IF HasWalk(a, b) THEN WalkPath(a, b) ELSE <<>>
            IN IF p = <<>> \/ ~PathOK(p)
               THEN /\ xcache' = valid /\ pcache' = pcache     \* ValueError / KeyError: nothing stored
                    /\ lastq' = [a |-> a, b |-> b, got |-> Id, g |-> None, err |-> TRUE]
               ELSE /\ pcache' = IF cp # <<>> THEN pcache ELSE pcache \cup {[k |-> <<a, b>>, p |-> p]}
                    /\ xcache' = valid \cup {[k |-> <<a, b>>, m |-> PathProd(p, 1), g |-> geom[b]]}
                    /\ lastq' = [a |-> a, b |-> b, got |-> PathProd(p, 1), g |-> geom[b], err |-> FALSE]
    /\ Log([op |-> "get", a |-> a0, b |-> b,
            conn |-> Connected(a, b),
            exp |-> IF Connected(a, b) THEN RefGet(a, b) ELSE Id,
            expg |-> geom[b]])

Bounded == Len(hist) < MaxDepth
GeomOpt == GeomNames \cup {None}

Next == /\ Bounded
        /\ \/ \E u \in Nodes, v \in Nodes, m \in Gens, g \in GeomOpt : Update(u, v, m, g)
           \/ \E u \in Nodes : RemoveNode(u)
           \/ \E g \in GeomNames : RemoveGeometry(g)
           \/ \E b \in Nodes : SetBase(b)
           \/ \E a \in Nodes \cup {None}, b \in Nodes : Get(a, b)

Spec == Init /\ [][Next]_vars

\* ------------------------------------------------------------- properties
\* C09: every answer is the product of the current edges along the unique path
GetIsPathProduct ==
    lastq # <<>> =>
        IF Connected(lastq.a, lastq.b)
        THEN ~lastq.err /\ lastq.got = RefGet(lastq.a, lastq.b) /\ lastq.g = geom[lastq.b]
        ELSE lastq.err
\* structural invariants of the representation (hold when Ghost = FALSE)
EdgeIffParent == \A p \in Pairs : edge[p] # NoM <=> parent[p[2]] = p[1]
ForestInv == Acyclic /\ \A n \in Nodes : parent[n] # None => n \in present /\ parent[n] \in present
\* the hash memo, when set, identifies the current content
HashMemoFresh == hmemo # -1 => hmemo = ver
\* consequences listed in the property (checked on the reference itself: algebraic sanity of the spec)
RefLaws == \A a \in present, b \in present, c \in present :
              (Connected(a, b) /\ Connected(b, c)) =>
                 /\ RefGet(a, a) = Id
                 /\ RefGet(a, c) = Mul(RefGet(a, b), RefGet(b, c))
                 /\ RefGet(a, b) = Inv(RefGet(b, a))

\* --------------------------------------------------------------- emission
FinalSweep == [p \in {q \in Pairs : q[1] \in present /\ q[2] \in present} |->
                 IF Connected(p[1], p[2]) THEN RefGet(p[1], p[2]) ELSE NoM]
SweepSeq == LET S == {q \in Pairs : q[1] \in present /\ q[2] \in present}
                RECURSIVE Ser(_)
                Ser(T) == IF T = {} THEN <<>>
                          ELSE LET q == CHOOSE q \in T : TRUE IN
                               <<[a |-> q[1], b |-> q[2], conn |-> Connected(q[1], q[2]),
                                  exp |-> IF Connected(q[1], q[2]) THEN RefGet(q[1], q[2]) ELSE Id,
                                  expg |-> geom[q[2]]]>> \o Ser(T \ {q})
            IN Ser(S)
EdgeSeq == LET S == {q \in Pairs : parent[q[2]] = q[1]}
               RECURSIVE Ser(_)
               Ser(T) == IF T = {} THEN <<>>
                         ELSE LET q == CHOOSE q \in T : TRUE IN
                              <<[u |-> q[1], v |-> q[2], m |-> edge[q]]>> \o Ser(T \ {q})
           IN Ser(S)
Emit == PrintT(ToJson([h |-> hist, sweep |-> SweepSeq, edges |-> EdgeSeq, base |-> base,
                       init |-> IF InitShape = "chain"
                                THEN [k \in 1..(Len(ChainOrder) - 1) |-> [u |-> ChainOrder[k], v |-> ChainOrder[k + 1], m |-> G0]]
                                ELSE <<>>]))
EmitAll  == Emit
EmitLeaf == (Len(hist) = MaxDepth) => Emit
\* ------------------------------------------------ constants for the configs
Nodes4 == {"w", "a", "b", "c"}
Nodes5 == {"w", "a", "b", "c", "d"}
Gens2  == {<<1, 1, 0>>, <<0, 0, 1>>}                 \* rot90+shift, pure translation (non-commuting)
Gens3  == {<<1, 1, 0>>, <<0, 0, 1>>, <<2, 0, 2>>}
\* two matrices with the SAME rotation that differ by a small translation: re-updates of one edge that change
\* only a few entries by a few units (replayed with frames placed ~10^8 away from the origin)
GensK  == {<<1, 1, 0>>, <<1, -1, 2>>}
Nodes3 == {"w", "a", "b"}
Geoms1 == {"g1"}
Geoms0 == {}
=============================================================================
