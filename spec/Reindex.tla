----------------------------- MODULE Reindex -----------------------------
(***************************************************************************)
(* Property C07: operations that re-index a mesh never move a triangle and *)
(* never misalign attached data.  Every operation is written as a RELATION *)
(* between the abstract pre-state and the observed post-state, so the      *)
(* freedom the implementation has (which duplicate survives a merge, which *)
(* representative of a class of repeated faces is kept, in which order the *)
(* parts of a split are returned) is allowed.  Batch validator of recorded *)
(* (pre, operation, options, post) observations of the real code.          *)
(*                                                                         *)
(* Abstract mesh (0-based ids as in numpy; sequences here are 1-based):    *)
(*   pos    slot s -> position id: 0 = non-finite (NaN/inf), p >= 1 = a    *)
(*          point of the table below; several slots may share a position   *)
(*   faces  face t -> triple of slots (repeats and unreferenced slots      *)
(*          allowed)                                                       *)
(*   uvc, nc  slot -> class of its texture coordinate / stored normal      *)
(* Identity is observable through tags the harness attaches: a face        *)
(* carries its original index (face attribute, face colour), a vertex its  *)
(* original slot (vertex attribute, vertex colour) and its uv / normal     *)
(* class.                                                                  *)
(*                                                                         *)
(* Position ids: row r = (p+1) div 2 of Lattice4, sub-offset (p-1) mod 2.  *)
(* Coordinates are the table value / 4: positions of one row differ by     *)
(* 0.25 and are merged only when merge_vertices is asked for zero digits   *)
(* (option dv); slots with the same id differ by < 1e-8 (merge tolerance). *)
(* uv / normal classes: u div 2 is the class at coarse digits (du / dn).   *)
(* uv classes 4..11 are classes 0..3 moved by one or two whole texture     *)
(* repeats: different coordinates like any other (a seam vertex keeps its  *)
(* own uv).  Operands of a concatenation may have vertices and no faces,   *)
(* or nothing at all: their slots are part of the stacked original.        *)
(* Row 5 lies on the segment of rows 1 and 2: exact zero-area triangles    *)
(* with three distinct corners.                                            *)
(*                                                                         *)
(* Scope: meshes of a few faces (every pattern of duplicates, repeats and  *)
(* degeneracy) and meshes of 17 to 22 faces (sorting routines behave       *)
(* differently above 16 elements); split is judged for at most seven       *)
(* face-connected components.                                              *)
(*                                                                         *)
(* Left unconstrained (the statement is silent): whether unreferenced      *)
(* vertices survive merge_vertices / face masking / submesh; which slot    *)
(* represents a merged group; whether a face with a non-finite corner      *)
(* counts as degenerate; what a merge does with non-finite slots; user     *)
(* attributes and normals that an operation drops (only data that is still *)
(* there must be aligned); faces appended by hole filling (repair or       *)
(* only_watertight); exact corner order inside a face (only the three      *)
(* positions, and under its own clause name the cyclic order).             *)
(*                                                                         *)
(* process (the constructor's default path and Trimesh.process): drops     *)
(* faces with a non-finite corner and merges vertices (merge_tex /         *)
(* merge_norm, default digits); with validate it also drops repeated and   *)
(* degenerate faces and may reverse faces (fix_normals), so only the three *)
(* positions of a face are demanded there, not its cyclic order.  The      *)
(* docstring lists validation after merging, the code validates first:     *)
(* both readings of "repeated / degenerate" are accepted.                  *)
(*                                                                         *)
(* Presence: an operation that edits a mesh in place must leave every data *)
(* channel that was attached (face / vertex attributes, colours, uv,       *)
(* assigned vertex normals) attached while an element survives; results    *)
(* that are new meshes (submesh, split, concatenate) must keep the visual  *)
(* channel and, for concatenate, the assigned vertex normals (the code     *)
(* carries them); user attributes and vertex normals that submesh / split  *)
(* / concatenate do not copy are not demanded (the statement is read as    *)
(* "aligned where present" for new meshes, DESIGN section 4).              *)
(***************************************************************************)
\* NB clause names stay short: TLC wraps PrintT output at 80 columns.
EXTENDS Integers, Sequences, FiniteSets, TLC, Json

Cases == ndJsonDeserialize("cases.ndjson")
VARIABLE i

\* ------------------------------------------------------------ position table
Lattice4 == << <<0, 0, 0>>, <<8, 0, 0>>, <<0, 8, 0>>, <<0, 0, 8>>, <<4, 0, 0>> >>
Sub4 == <<1, 1, 0>>
RowOf(p) == (p + 1) \div 2
SubOf(p) == (p - 1) % 2
XYZ(p) == [k \in 1..3 |-> Lattice4[RowOf(p)][k] + SubOf(p) * Sub4[k]]
MaxPos == 2 * Len(Lattice4)

\* ------------------------------------------------------------------ helpers
Range(s) == {s[k] : k \in 1..Len(s)}
Iota(n) == [k \in 1..n |-> k - 1]
SetMin(S) == CHOOSE m \in S : \A x \in S : m <= x
RECURSIVE SortSet(_)
SortSet(S) == IF S = {} THEN <<>> ELSE <<SetMin(S)>> \o SortSet(S \ {SetMin(S)})
RECURSIVE Flatten(_)
Flatten(ss) == IF Len(ss) = 0 THEN <<>> ELSE Head(ss) \o Flatten(Tail(ss))
Abs(x) == IF x < 0 THEN -x ELSE x
CountIn(s, x) == Cardinality({k \in 1..Len(s) : s[k] = x})
BagEq(a, b) == Len(a) = Len(b) /\ \A x \in Range(a) \cup Range(b) : CountIn(a, x) = CountIn(b, x)
RECURSIVE Perms(_)                                                 \* enumerations of a small set
Perms(S) == IF S = {} THEN {<<>>} ELSE UNION {{<<x>> \o q : q \in Perms(S \ {x})} : x \in S}
Pick(ss, S) == LET o == SortSet(S) IN [k \in 1..Len(o) |-> ss[o[k]]]   \* sub-sequence at index set S
Min2(a, b) == IF a <= b THEN a ELSE b
Max2(a, b) == IF a <= b THEN b ELSE a
Sort3(t) == LET lo == Min2(t[1], Min2(t[2], t[3]))  hi == Max2(t[1], Max2(t[2], t[3]))
            IN <<lo, t[1] + t[2] + t[3] - lo - hi, hi>>
LexLeq(a, b) == a[1] < b[1] \/ (a[1] = b[1] /\ (a[2] < b[2] \/ (a[2] = b[2] /\ a[3] <= b[3])))
Rots(t) == {<<t[1], t[2], t[3]>>, <<t[2], t[3], t[1]>>, <<t[3], t[1], t[2]>>}
LeastRot(t) == CHOOSE r \in Rots(t) : \A q \in Rots(t) : LexLeq(r, q)
Rot3 == {<<1, 2, 3>>, <<2, 3, 1>>, <<3, 1, 2>>}
Perm3 == Rot3 \cup {<<1, 3, 2>>, <<3, 2, 1>>, <<2, 1, 3>>}

\* ------------------------------------------------------------ the pre-state
Slots(c) == 0..(Len(c.pos) - 1)
NF(c) == Len(c.faces)
FaceIds(c) == 0..(NF(c) - 1)
P(c, s) == c.pos[s + 1]
Fc(c, t) == c.faces[t + 1]
Finite(c, s) == P(c, s) # 0
Referenced(c) == UNION {Range(c.faces[k]) : k \in 1..NF(c)}
\* a mask: kind "b" = one 0/1 flag per element, kind "i" = list of indices (any order, repeats allowed)
MaskSeq(kind, m) == IF kind = "b" THEN SortSet({k - 1 : k \in {j \in 1..Len(m) : m[j] = 1}}) ELSE m

\* ------------------------------------------------- exact geometry of a face
Vec(a, b) == [k \in 1..3 |-> b[k] - a[k]]
Cross(u, v) == <<u[2] * v[3] - u[3] * v[2], u[3] * v[1] - u[1] * v[3], u[1] * v[2] - u[2] * v[1]>>
Dot(u, v) == u[1] * v[1] + u[2] * v[2] + u[3] * v[3]
CrossOf(p1, p2, p3) == Cross(Vec(XYZ(p1), XYZ(p2)), Vec(XYZ(p1), XYZ(p3)))
ZeroVec(v) == v[1] = 0 /\ v[2] = 0 /\ v[3] = 0
HasNonFinite(c, t) == \E j \in 1..3 : ~Finite(c, Fc(c, t)[j])
RepeatsSlot(c, t) == Cardinality(Range(Fc(c, t))) < 3
\* degenerate: a repeated slot, or three finite corners spanning zero area (coincident or collinear)
Degenerate(c, t) == RepeatsSlot(c, t)
                    \/ (~HasNonFinite(c, t) /\ ZeroVec(CrossOf(P(c, Fc(c, t)[1]), P(c, Fc(c, t)[2]), P(c, Fc(c, t)[3]))))

\* ------------------------------------------------------ connectivity (as C05)
EdgeRow(F, k) == LET f == (k - 1) \div 3  j == (k - 1) % 3
                 IN <<F[f + 1][j + 1], F[f + 1][((j + 1) % 3) + 1]>>
SortedEdge(e) == <<Min2(e[1], e[2]), Max2(e[1], e[2])>>
EdgesSorted(F) == [k \in 1..(3 * Len(F)) |-> SortedEdge(EdgeRow(F, k))]
Occ(S, e) == {k \in 1..Len(S) : S[k] = e}
Watertight(F) == LET S == EdgesSorted(F) IN \A e \in Range(S) : Cardinality(Occ(S, e)) = 2
\* two faces are adjacent through an edge occurring exactly twice, in two different faces
AdjPairs(F) == LET S == EdgesSorted(F)
                   twice == {e \in Range(S) : Cardinality(Occ(S, e)) = 2}
                   fs(e) == {(k - 1) \div 3 : k \in Occ(S, e)}
               IN UNION {{p \in fs(e) \X fs(e) : p[1] # p[2]} : e \in twice}
RECURSIVE Reach(_, _)
Reach(A, Sym) == LET Nx == A \cup {p[2] : p \in {q \in Sym : q[1] \in A}}
                 IN IF Nx = A THEN A ELSE Reach(Nx, Sym)
FaceComponents(F) == LET adj == AdjPairs(F) IN {Reach({f}, adj) : f \in 0..(Len(F) - 1)}

\* ------------------------------------------------- what counts as "the same"
Merging(c) == c.op \in {"merge_vertices", "process"}
PK(c, p) == IF p <= 0 THEN p ELSE IF Merging(c) /\ c.o.dv THEN RowOf(p) ELSE p
UvActive(c) == c.vis = "texture" /\ ~c.o.mt        \* merge_tex=False keeps different uv apart
NrmActive(c) == c.hasn /\ ~c.o.mn                   \* merge_norm=False keeps different normals apart
UK(c, u) == IF c.o.du THEN u \div 2 ELSE u
NK(c, x) == IF c.o.dn THEN x \div 2 ELSE x
Key(c, s) == <<PK(c, P(c, s)), IF UvActive(c) THEN UK(c, c.uvc[s + 1]) ELSE 0,
               IF NrmActive(c) THEN NK(c, c.nc[s + 1]) ELSE 0>>
\* the original slots whose data the post vertex standing at a corner that used to be slot s may carry
Target(c, s) ==
    IF Merging(c) THEN (IF Finite(c, s) THEN {g \in Slots(c) : Key(c, g) = Key(c, s)}
                        ELSE {g \in Slots(c) : ~Finite(c, g)})
    ELSE IF c.op = "update_vertices_inv" THEN {c.mask[c.inv[s + 1] + 1]}
    ELSE {s}

ChanIn(ch, k, allowed) == ~ch.has \/ (k <= Len(ch.v) /\ ch.v[k] \in allowed)
\* post vertex v of result `out` is an acceptable image of original slot s, on the channels chs
VertexOK(c, out, v, s, chs) ==
    LET tg == Target(c, s) IN
    /\ PK(c, out.ppos[v + 1]) = PK(c, P(c, s))
    /\ ("va" \in chs => ChanIn(out.va, v + 1, tg) /\ ChanIn(out.xa, v + 1, tg))
    /\ ("vc" \in chs => ChanIn(out.vc, v + 1, tg))
    /\ ("uv" \in chs => ChanIn(out.uv, v + 1, {c.uvc[g + 1] : g \in tg}))
    /\ ("vn" \in chs => ChanIn(out.vn, v + 1, {c.nc[g + 1] : g \in tg}))
\* post face k of `out` is original face t: corner for corner, up to a corner permutation from PS
FaceMatch(c, out, k, t, chs, PS) ==
    \E sg \in PS : \A j \in 1..3 : VertexOK(c, out, out.faces[k][sg[j]], Fc(c, t)[j], chs)
\* T: one tag sequence per returned mesh, T[m][k] = original face that post face k of mesh m must be
AllMatch(c, T, chs, PS) ==
    \A m \in 1..Len(T) : \A k \in 1..Len(T[m]) : FaceMatch(c, c.outs[m], k, T[m][k], chs, PS)

\* ------------------------------------------------- which faces must survive
KeptByVertices(c, K) == SortSet({t \in FaceIds(c) : Range(Fc(c, t)) \subseteq K})
\* repeated faces: the same three slots (as a bag), in any corner order
SlotClass(c, t) == {u \in FaceIds(c) : Sort3(Fc(c, u)) = Sort3(Fc(c, t))}
\* the other reading of validation (after the merge): faces whose corners fall into the same three merged
\* groups are repeats of each other, a face with two corners in one group (or zero area) is degenerate
KeyCode(c, s) == LET k == Key(c, s) IN (k[1] * 16 + k[2]) * 8 + k[3]
KeyFace(c, t) == Sort3([j \in 1..3 |-> KeyCode(c, Fc(c, t)[j])])
KeyClass(c, t, dom) == {u \in dom : KeyFace(c, u) = KeyFace(c, t)}
DegenerateMerged(c, t) == Degenerate(c, t) \/ Cardinality({KeyCode(c, Fc(c, t)[j]) : j \in 1..3}) < 3
Entries(c) == [k \in 1..Len(c.seq) |-> MaskSeq(c.seq[k].k, c.seq[k].m)]
NonEmptyIdx(c) == {k \in 1..Len(c.seq) : Len(Entries(c)[k]) > 0}
FacesOf(c, ts) == [k \in 1..Len(ts) |-> Fc(c, ts[k])]
Closed(c, ts) == Len(ts) >= 4 /\ Watertight(FacesOf(c, ts))
\* hole filling may append faces to a part (documented for repair and for only_watertight)
ExtraOK(c) == c.op \in {"submesh", "split"} /\ ~c.o.app /\ (c.o.rep \/ c.o.ow)

\* one element out of every set of a family of disjoint sets, in every way
RECURSIVE Transversals(_)
Transversals(CS) == IF CS = {} THEN {{}}
                    ELSE LET C == CHOOSE X \in CS : TRUE
                         IN UNION {{R \cup {x} : R \in Transversals(CS \ {C})} : x \in C}

\* the acceptable tag assignments, order included
Exact(c) ==
    CASE c.op \in {"merge_vertices", "unmerge_vertices", "remove_unreferenced_vertices",
                   "update_vertices_inv", "concatenate"} -> {<<Iota(NF(c))>>}
      [] c.op = "update_vertices" -> {<<KeptByVertices(c, Range(MaskSeq(c.mk, c.mask)))>>}
      [] c.op = "remove_infinite_values" -> {<<KeptByVertices(c, {s \in Slots(c) : Finite(c, s)})>>}
      [] c.op = "update_faces" -> {<<MaskSeq(c.mk, c.mask)>>}
      [] c.op = "remove_duplicate_faces" ->
            {<<SortSet(R)>> : R \in Transversals({SlotClass(c, t) : t \in FaceIds(c)})}
      [] c.op = "process" ->
            LET fin == {t \in FaceIds(c) : ~HasNonFinite(c, t)} IN
            IF ~c.o.val THEN {<<SortSet(fin)>>}
            ELSE LET keepA == {t \in fin : ~Degenerate(c, t)}
                     keepB == {t \in fin : ~DegenerateMerged(c, t)}
                 IN {<<SortSet(R \cap keepA)>> : R \in Transversals({SlotClass(c, t) : t \in FaceIds(c)})}
                    \cup {<<SortSet(R \cap keepB)>> : R \in Transversals({KeyClass(c, t, fin) : t \in fin})}
      [] c.op = "remove_degenerate_faces" ->
            LET keep == {t \in FaceIds(c) : ~Degenerate(c, t) /\ ~HasNonFinite(c, t)}
                free == {t \in FaceIds(c) : ~Degenerate(c, t) /\ HasNonFinite(c, t)}
            IN {<<SortSet(keep \cup X)>> : X \in SUBSET free}
      [] c.op = "submesh" ->
            LET E == Entries(c)  ne == NonEmptyIdx(c) IN
            IF c.o.app THEN (IF ne = {} THEN {<<>>} ELSE {<<Flatten(Pick(E, ne))>>})
            ELSE IF ~c.o.ow THEN {Pick(E, ne)}
            ELSE LET must == {k \in ne : Closed(c, E[k])}
                 IN {Pick(E, S) : S \in {S \in SUBSET ne : must \subseteq S}}
      [] c.op = "split" ->
            LET comps == FaceComponents(c.faces) IN
            IF Cardinality(comps) > 7 THEN {}      \* outside the scope of this reference (RefSane stops the run)
            ELSE IF ~c.o.ow THEN {[k \in 1..Len(f) |-> SortSet(f[k])] : f \in Perms(comps)}
            \* a component of fewer than four faces may come back closed by hole repair (the networkx engine
            \* hands such components on, the scipy engine discards them first): which open parts are
            \* discarded is not part of the statement
            ELSE LET cand == comps
                     must == {C \in cand : Closed(c, SortSet(C))}
                 IN UNION {{[k \in 1..Len(f) |-> SortSet(f[k])] : f \in Perms(S)} :
                           S \in {S \in SUBSET cand : must \subseteq S}}
      [] OTHER -> {}

ShapeOK(c, T) ==
    /\ Len(T) = Len(c.outs)
    /\ \A m \in 1..Len(T) : IF ExtraOK(c) THEN Len(c.outs[m].faces) >= Len(T[m])
                            ELSE Len(c.outs[m].faces) = Len(T[m])

\* only for naming a failure: do the right triangles survive, in some other order?
OrigKey(c, t) == Sort3([j \in 1..3 |-> PK(c, P(c, Fc(c, t)[j]))])
PostKey(c, out, k) == Sort3([j \in 1..3 |-> PK(c, out.ppos[out.faces[k][j] + 1])])
OrderOnly(c, T) == \A m \in 1..Len(T) :
    BagEq([k \in 1..Len(T[m]) |-> OrigKey(c, T[m][k])], [k \in 1..Len(T[m]) |-> PostKey(c, c.outs[m], k)])

\* the same question with everything a corner carries (split copies vertices, so tags are exact): the
\* faces of every part are the expected ones with their data, as a bag, whatever their order
CornerCode(p, tag, u, x) == ((p * 40 + (tag + 1)) * 16 + (u + 1)) * 8 + (x + 1)
OrigFullKey(c, out, t) == LeastRot([j \in 1..3 |->
    LET s == Fc(c, t)[j] IN
    CornerCode(P(c, s), IF out.vc.has \/ out.va.has THEN s ELSE -1,
               IF out.uv.has THEN c.uvc[s + 1] ELSE -1, IF out.vn.has THEN c.nc[s + 1] ELSE -1)])
PostFullKey(c, out, k) == LeastRot([j \in 1..3 |->
    LET v == out.faces[k][j] + 1 IN
    CornerCode(out.ppos[v], IF out.vc.has THEN out.vc.v[v] ELSE IF out.va.has THEN out.va.v[v] ELSE -1,
               IF out.uv.has THEN out.uv.v[v] ELSE -1, IF out.vn.has THEN out.vn.v[v] ELSE -1)])
FullOrderOnly(c, T) == \A m \in 1..Len(T) :
    BagEq([k \in 1..Len(T[m]) |-> OrigFullKey(c, c.outs[m], T[m][k])],
          [k \in 1..Len(T[m]) |-> PostFullKey(c, c.outs[m], k)])

\* ------------------------------------------------------- standalone clauses
IndexOK(out) == \A k \in 1..Len(out.faces) : \A j \in 1..3 :
                    out.faces[k][j] >= 0 /\ out.faces[k][j] < Len(out.ppos)
PosKnown(out) == \A v \in 1..Len(out.ppos) : out.ppos[v] \in 0..MaxPos

\* the normal reported for a face is the unit normal of that face's own corners (times 10^4)
FaceNormalOK(out) ==
    ~out.fn.has \/
    (Len(out.fn.v) = Len(out.faces) /\
     \A k \in 1..Len(out.faces) :
        LET f == out.faces[k]
            p == [j \in 1..3 |-> out.ppos[f[j] + 1]] IN
        (\E j \in 1..3 : p[j] = 0) \/
        LET cr == CrossOf(p[1], p[2], p[3])
            nv == out.fn.v[k]
            x == Cross(nv, cr)
            slack == Abs(cr[1]) + Abs(cr[2]) + Abs(cr[3]) IN
        ZeroVec(cr) \/ (/\ \A j \in 1..3 : Abs(x[j]) <= slack
                        /\ Dot(nv, cr) > 0
                        /\ Abs(Dot(nv, nv) - 100000000) <= 1000000))

\* every vertex of a result (referenced or not) carries the data of one original slot standing at its position
VertexDataOK(c, out) ==
    \A v \in 1..Len(out.ppos) :
        LET cand == {s \in Slots(c) : PK(c, P(c, s)) = PK(c, out.ppos[v])} IN
        /\ ChanIn(out.va, v, cand)
        /\ ChanIn(out.xa, v, cand)
        /\ ChanIn(out.vc, v, cand)
        /\ ChanIn(out.uv, v, {c.uvc[s + 1] : s \in cand})
        /\ ChanIn(out.vn, v, {c.nc[s + 1] : s \in cand})
\* without merging a post vertex is a copy of exactly one slot: all its channels name that slot
VertexChannelsAgree(c, out) ==
    Merging(c) \/ c.op = "update_vertices_inv" \/
    \A v \in 1..Len(out.ppos) :
        LET ids == (IF out.va.has /\ v <= Len(out.va.v) THEN {out.va.v[v]} ELSE {})
                   \cup (IF out.xa.has /\ v <= Len(out.xa.v) THEN {out.xa.v[v]} ELSE {})
                   \cup (IF out.vc.has /\ v <= Len(out.vc.v) THEN {out.vc.v[v]} ELSE {}) IN
        /\ Cardinality(ids) <= 1
        /\ \A s \in ids : s \in Slots(c) /\ ChanIn(out.uv, v, {c.uvc[s + 1]}) /\ ChanIn(out.vn, v, {c.nc[s + 1]})

\* ------------------------------------------------------- derived colours
\* The colour kind that is not stored is derived by the library from the stored one: a face of a
\* vertex-coloured mesh reports the mean of its three corner colours, a vertex of a face-coloured mesh the
\* mean of the faces it is used by (truncated to an integer).  Read through the public accessor after the
\* operation they must be the colours of the result's own faces / vertices - whatever had been read (and
\* cached) before the operation.  The tag colours are those of the harness (checks/c07.py FCOL / VCOL).
VCol(t) == <<(90 + 13 * t) % 256, (31 * t + 7) % 256, (250 + 512 - 9 * t) % 256, 255>>
FCol(t) == <<(17 * t + 3) % 256, (200 + 256 - 7 * t) % 256, (5 + 29 * t) % 256, 255>>
DerivedFaceOK(out) ==
    ~out.dfc.has \/ ~out.vc.has \/ Len(out.vc.v) # Len(out.ppos) \/
    (Len(out.dfc.v) = Len(out.faces) /\
     \A k \in 1..Len(out.faces) :
        LET tg == [j \in 1..3 |-> out.vc.v[out.faces[k][j] + 1]] IN
        (\E j \in 1..3 : tg[j] < 0) \/
        \A ch \in 1..4 : out.dfc.v[k][ch] = (VCol(tg[1])[ch] + VCol(tg[2])[ch] + VCol(tg[3])[ch]) \div 3)
\* vertices used by a face that repeats a slot are left out (how often such a face counts is not specified),
\* unreferenced vertices too
RECURSIVE SumCol(_, _, _)
SumCol(out, S, ch) == IF S = {} THEN 0
                      ELSE LET k == CHOOSE x \in S : TRUE IN FCol(out.fc.v[k])[ch] + SumCol(out, S \ {k}, ch)
DerivedVertexOK(out) ==
    ~out.dvc.has \/ ~out.fc.has \/ Len(out.fc.v) # Len(out.faces) \/
    (Len(out.dvc.v) = Len(out.ppos) /\
     \A v \in 1..Len(out.ppos) :
        LET inc == {k \in 1..Len(out.faces) : (v - 1) \in Range(out.faces[k])} IN
        inc = {} \/ (\E k \in inc : Cardinality(Range(out.faces[k])) < 3 \/ out.fc.v[k] < 0) \/
        \A ch \in 1..4 : out.dvc.v[v][ch] = SumCol(out, inc, ch) \div Cardinality(inc))

ChanLen(ch, n) == ~ch.has \/ Len(ch.v) = n
\* derived colour arrays (read through the public accessors) have one row per element
CountsOK(c, out) == /\ (out.fcn >= 0 => out.fcn = Len(out.faces))
                    /\ (out.vcn >= 0 => out.vcn = Len(out.ppos))
                    /\ ChanLen(out.va, Len(out.ppos)) /\ ChanLen(out.vc, Len(out.ppos))
                    /\ ChanLen(out.xa, Len(out.ppos))
                    /\ ChanLen(out.uv, Len(out.ppos)) /\ ChanLen(out.vn, Len(out.ppos))
                    /\ (~ExtraOK(c) => ChanLen(out.fa, Len(out.faces)) /\ ChanLen(out.fc, Len(out.faces)))

\* presence (see the header): a channel that was attached stays attached while an element survives
InPlace(c) == c.op \notin {"submesh", "split", "concatenate"}
AttrKept(c, out) == ~InPlace(c) \/ ((Len(out.faces) > 0 => out.fa.has) /\ (Len(out.ppos) > 0 => out.va.has))
VisualKept(c, out) ==
    /\ (c.vis = "face" /\ Len(out.faces) > 0 => out.fc.has)
    /\ (c.vis = "vertex" /\ Len(out.faces) > 0 /\ Len(out.ppos) > 0 => out.vc.has)
    /\ (c.vis = "texture" /\ Len(out.ppos) > 0 => out.uv.has)
\* c.carry: in-place operations and concatenation of the meshes themselves; a Scene hands copies of its
\* geometry to the concatenation, and what Trimesh.copy() keeps is another property's question (C17)
NormalsKept(c, out) ==
    (c.hasn /\ c.carry /\ (InPlace(c) \/ c.op = "concatenate") /\ Len(out.faces) > 0 /\ Len(out.ppos) > 0) => out.vn.has

FaceChanOK(ch, ts) == ~ch.has \/ (Len(ch.v) >= Len(ts) /\ \A k \in 1..Len(ts) : ch.v[k] = ts[k])

\* ---------------------------------------------- operation-specific clauses
\* the vertex list is determined for these operations (order included)
HasExactVerts(c) == c.op \in {"update_vertices", "update_vertices_inv", "remove_unreferenced_vertices",
                              "remove_infinite_values", "unmerge_vertices"}
ExactVerts(c) ==
    CASE c.op = "update_vertices" -> MaskSeq(c.mk, c.mask)
      [] c.op = "update_vertices_inv" -> c.mask
      [] c.op = "remove_unreferenced_vertices" -> SortSet(Referenced(c))
      [] c.op = "remove_infinite_values" -> SortSet({s \in Slots(c) : Finite(c, s)})
      [] c.op = "unmerge_vertices" -> Flatten(c.faces)
      [] OTHER -> <<>>
SeqChanOK(ch, want) == ~ch.has \/ ch.v = want
ExactVertsOK(c, out) ==
    LET ev == ExactVerts(c) IN
    /\ out.ppos = [k \in 1..Len(ev) |-> P(c, ev[k])]
    /\ SeqChanOK(out.va, ev) /\ SeqChanOK(out.vc, ev) /\ SeqChanOK(out.xa, ev)
    /\ SeqChanOK(out.uv, [k \in 1..Len(ev) |-> c.uvc[ev[k] + 1]])
    /\ SeqChanOK(out.vn, [k \in 1..Len(ev) |-> c.nc[ev[k] + 1]])

\* merge_vertices: no two referenced finite vertices are left whose data come from slots with the same
\* key (position, and uv / normal class where the options keep those apart); judged through the vertex
\* attribute, which names the slot a surviving vertex was copied from
MergeComplete(c, out) ==
    ~out.va.has \/
    LET ref == {v \in UNION {Range(out.faces[k]) : k \in 1..Len(out.faces)} : out.ppos[v + 1] # 0}
    IN \A a, b \in ref : a = b \/ Key(c, out.va.v[a + 1]) # Key(c, out.va.v[b + 1])

\* unmerge_vertices: every face gets three private vertices and nothing else is left
UnmergePrivate(c, out) ==
    /\ Len(out.ppos) = 3 * Len(out.faces)
    /\ Cardinality(Range(Flatten(out.faces))) = 3 * Len(out.faces)

\* splitting (repair off) then concatenating gives back the bag of triangles
CatKeys(c, out, cyc) == [k \in 1..Len(out.faces) |->
    LET t == [j \in 1..3 |-> out.ppos[out.faces[k][j] + 1]] IN IF cyc THEN LeastRot(t) ELSE Sort3(t)]
OrigKeys(c, cyc) == [k \in 1..NF(c) |->
    LET t == [j \in 1..3 |-> P(c, c.faces[k][j])] IN IF cyc THEN LeastRot(t) ELSE Sort3(t)]
IsRoundTrip(c) == c.op = "split" /\ ~c.o.ow /\ ~c.o.rep /\ Len(c.cat) = 1

\* ----------------------------------------------------------------- verdict
Clause(c) ==
    LET outs == c.outs
        all == 1..Len(outs)
        S1 == {T \in Exact(c) : ShapeOK(c, T)}
        S2 == {T \in S1 : AllMatch(c, T, {}, Perm3)}
        \* validation may reverse faces (fix_normals): the cyclic order is demanded everywhere else
        PS == IF c.op = "process" /\ c.o.val THEN Perm3 ELSE Rot3
        S3 == {T \in S2 : AllMatch(c, T, {}, PS)}
        S4 == {T \in S3 : \A m \in 1..Len(T) : FaceChanOK(outs[m].fa, T[m])}
        S5 == {T \in S4 : AllMatch(c, T, {"va"}, PS)}
        S6 == {T \in S5 : AllMatch(c, T, {"va", "vc"}, PS)}
        S7 == {T \in S6 : AllMatch(c, T, {"va", "vc", "uv"}, PS)}
        S8 == {T \in S7 : AllMatch(c, T, {"va", "vc", "uv", "vn"}, PS)}
        S9 == {T \in S8 : \A m \in 1..Len(T) : FaceChanOK(outs[m].fc, T[m])}
        \* two faces at the same three positions can be told apart by what their corners carry
        reordered == c.op = "split" /\ \E T \in S1 : FullOrderOnly(c, T)
    IN
    IF \E m \in all : ~IndexOK(outs[m]) THEN "faces_index_existing_vertices"
    ELSE IF \E m \in all : ~PosKnown(outs[m]) THEN "vertex_at_unknown_position"
    ELSE IF Len(c.cat) = 1 /\ (~IndexOK(c.cat[1]) \/ ~PosKnown(c.cat[1])) THEN "concatenated_parts_index_or_position"
    ELSE IF S1 = {} THEN "surviving_face_set"
    ELSE IF S2 = {} THEN (IF \E T \in S1 : OrderOnly(c, T) THEN "relative_order" ELSE "corner_positions")
    ELSE IF S3 = {} THEN (IF reordered THEN "relative_order" ELSE "winding_cyclic_order")
    ELSE IF \E m \in all : ~CountsOK(c, outs[m]) THEN "data_row_count"
    ELSE IF \E m \in all : ~AttrKept(c, outs[m]) THEN "attribute_dropped"
    ELSE IF \E m \in all : ~VisualKept(c, outs[m]) THEN "visual_data_dropped"
    ELSE IF S4 = {} THEN "face_attribute"
    ELSE IF \E m \in all : ~FaceNormalOK(outs[m]) THEN "face_normal"
    ELSE IF S5 = {} THEN (IF reordered THEN "relative_order" ELSE "vertex_attribute_at_corner")
    ELSE IF S6 = {} THEN (IF reordered THEN "relative_order" ELSE "vertex_color_at_corner")
    ELSE IF S7 = {} THEN (IF reordered THEN "relative_order" ELSE "texture_uv_at_corner")
    ELSE IF S8 = {} THEN (IF reordered THEN "relative_order" ELSE "vertex_normal_at_corner")
    ELSE IF \E m \in all : ~DerivedFaceOK(outs[m]) THEN "derived_face_color"
    ELSE IF \E m \in all : ~VertexDataOK(c, outs[m]) THEN "vertex_data_from_other_position"
    ELSE IF \E m \in all : ~VertexChannelsAgree(c, outs[m]) THEN "vertex_channels_disagree"
    ELSE IF HasExactVerts(c) /\ ~ExactVertsOK(c, outs[1]) THEN "vertex_list_exact"
    ELSE IF Merging(c) /\ ~MergeComplete(c, outs[1]) THEN "merge_left_duplicates"
    ELSE IF c.op = "unmerge_vertices" /\ ~UnmergePrivate(c, outs[1]) THEN "unmerge_private_vertices"
    ELSE IF c.op \in {"submesh", "split"} /\ ~c.o.app /\ c.o.ow
            /\ \E m \in all : ~(Len(outs[m].faces) >= 4 /\ Watertight(outs[m].faces))
         THEN "only_watertight_returned_open_part"
    ELSE IF IsRoundTrip(c) /\ ~BagEq(CatKeys(c, c.cat[1], FALSE), OrigKeys(c, FALSE)) THEN "split_concat_multiset"
    ELSE IF IsRoundTrip(c) /\ ~BagEq(CatKeys(c, c.cat[1], TRUE), OrigKeys(c, TRUE)) THEN "split_concat_multiset_winding"
    ELSE IF S9 = {} THEN "face_color"
    ELSE IF \E m \in all : ~DerivedVertexOK(outs[m]) THEN "derived_vertex_color"
    \* last, so that a record is never excused from another clause by this one
    ELSE IF \E m \in all : ~NormalsKept(c, outs[m]) THEN "stored_vertex_normals_dropped"
    ELSE "ok"

Init == i = 1
Next == i < Len(Cases) /\ i' = i + 1
Report == LET c == Cases[i]  cl == IF c.exc # "" THEN "raised_" \o c.exc ELSE Clause(c)
          IN IF cl # "ok" THEN PrintT(<<"REJECT", c.id, cl>>) ELSE TRUE

\* internal sanity of the reference, evaluated on the recorded inputs (a failure here is a defect of
\* the specification or of the harness, never a finding about trimesh)
RefSane ==
    LET c == Cases[i]  comps == FaceComponents(c.faces) IN
    /\ Exact(c) # {}
    /\ \A s \in Slots(c) : P(c, s) \in 0..MaxPos /\ (c.op = "update_vertices_inv" \/ s \in Target(c, s))
    /\ \A t \in FaceIds(c) : Range(Fc(c, t)) \subseteq Slots(c)
    /\ UNION comps = FaceIds(c) /\ \A A, B \in comps : A = B \/ A \cap B = {}
    /\ (c.op = "update_vertices_inv" /\ c.exc = "") =>
           \A s \in Referenced(c) : P(c, c.mask[c.inv[s + 1] + 1]) = P(c, s)
    \* distinct table entries are distinct points, and row 5 is collinear with rows 1 and 2
    /\ \A p, q \in 1..MaxPos : p = q \/ XYZ(p) # XYZ(q)
    /\ ZeroVec(CrossOf(1, 3, 9)) /\ ~ZeroVec(CrossOf(1, 3, 5))
=============================================================================
