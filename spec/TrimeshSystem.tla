--------------------------- MODULE TrimeshSystem ---------------------------
(***************************************************************************)
(* Layer 3 of the specification: a small HEAP of trimesh objects and the   *)
(* public API as the next-state relation, so that cross-object behaviour   *)
(* is in scope.  The listed properties meet here:                          *)
(*                                                                         *)
(*   C01  a read of a mesh returns the value of its CURRENT data           *)
(*   C02  the scene hash is a function of the current content              *)
(*   C09  a change to an edge is visible at once                           *)
(*   C10  scene quantities are those of the current placement of the       *)
(*        current geometry                                                 *)
(*   C17  copies (mesh copy, Scene.copy, deepcopy, export -> load) are     *)
(*        faithful snapshots that share no mutable state                   *)
(*                                                                         *)
(* Objects                                                                 *)
(*   A    a mesh held by the user AND (by reference) geometry 'a' of the   *)
(*        scene S, instanced by node 'na'                                  *)
(*   B    absent, or a copy of A held by the user; it may be added to S    *)
(*        as geometry 'b' / node 'nb' (again by reference)                 *)
(*   S    the scene: graph GS with nodes na [, nb] at positions pos        *)
(*   T    absent, or a snapshot of S (Scene.copy / deepcopy / glb round    *)
(*        trip) with its own geometries TA [, TB] and its own graph GT     *)
(*                                                                         *)
(* Abstract content of a mesh: <<val, shift>> - val is where one vertex    *)
(* was written (in place or by re-assignment), shift counts translations   *)
(* modulo 2.  `ideal` is the content every object SHOULD have (intention:  *)
(* an operation on one object changes that object only, except where the   *)
(* API shares by reference); `content` is what the as-built design gives   *)
(* under the deviation switches (buffers shared by a copy ...).  With all  *)
(* switches off the two coincide - that is the theorem TLC checks, the     *)
(* switches are the self-test that it would notice.                        *)
(***************************************************************************)
EXTENDS Integers, Sequences, FiniteSets, TLC, Json

CONSTANTS MaxDepth, Vals,
          CopyShares,            \* deviation: mesh copy shares the vertex buffer with its source
          SnapSharesGeometry,    \* deviation: Scene.copy keeps references to the same geometry objects
          SnapSharesGraph,       \* deviation: Scene.copy keeps the same graph object
          SceneIgnoresGeometry,  \* deviation: the scene cache key leaves out the geometry hashes
          GraphForgetsDirty      \* deviation: a graph mutator does not reset the graph's hash memo

Objs == {"A", "B", "TA", "TB"}
Graphs == {"GS", "GT"}
Nodes == {"na", "nb"}
Absent == <<-1, -1>>
NoPos == -1
None == <<>>
Dirty == <<>>

VARIABLES content, ideal,      \* Objs -> <<val, shift>> or Absent
          link,                \* set of 2-element sets of objects that share one buffer (as built)
          pos, idealPos,       \* Graphs -> (Nodes -> position or NoPos)
          glink,               \* TRUE iff GS and GT are one object (as built)
          inS,                 \* is B a geometry of S
          snap,                \* "" or the kind of snapshot T was made by
          xver, hmemo,         \* Graphs -> content version / hash memo (Dirty = <<>>) of each graph
          sid, sent,           \* scene cache of S: composed id it is for, and the entry for 'bounds'
          last, hist
vars == <<content, ideal, link, pos, idealPos, glink, inS, snap, xver, hmemo, sid, sent, last, hist>>
Log(r) == hist' = Append(hist, r)

Live(o) == ideal[o] # Absent
\* objects whose buffer is (as built) the one of o
Step(S) == S \cup {p \in Objs : \E q \in S : {p, q} \in link}
Shared(o) == Step(Step(Step({o})))
GShared(g) == IF glink THEN Graphs ELSE {g}
Unlink(o) == {e \in link : o \notin e}

\* ------------------------------------------------------------------ what a scene consists of
GeomOf(s, n) == IF s = "S" THEN (IF n = "na" THEN "A" ELSE "B") ELSE (IF n = "na" THEN "TA" ELSE "TB")
GraphOf(s) == IF s = "S" THEN "GS" ELSE "GT"
HasNode(s, n) == idealPos[GraphOf(s)][n] # NoPos
SceneLive(s) == s = "S" \/ snap # ""
\* state signature of a scene: per node <<val, shift, position>> of the instance, or all -1
SigOf(s, c, p) == [n \in Nodes |-> IF p[GraphOf(s)][n] = NoPos THEN <<-1, -1, -1>>
                                   ELSE <<c[GeomOf(s, n)][1], c[GeomOf(s, n)][2], p[GraphOf(s)][n]>>]
TrueSig(s)  == SigOf(s, ideal, idealPos)      \* what the user is entitled to
BuiltSig(s) == SigOf(s, content, pos)         \* what the objects hold as built

\* as-built hash composition (Scene.__hash__): graph hash memo + hash of every geometry
GraphHash(g) == IF hmemo[g] # Dirty THEN hmemo[g] ELSE <<xver[g], pos[g]>>
Composed == <<GraphHash("GS"), IF SceneIgnoresGeometry THEN <<>> ELSE <<content["A"], IF inS THEN content["B"] ELSE Absent>>>>

Init == /\ content = [o \in Objs |-> IF o = "A" THEN <<0, 0>> ELSE Absent]
        /\ ideal = content /\ link = {}
        /\ pos = [g \in Graphs |-> [n \in Nodes |-> IF g = "GS" /\ n = "na" THEN 0 ELSE NoPos]]
        /\ idealPos = pos /\ glink = FALSE /\ inS = FALSE /\ snap = ""
        /\ xver = [g \in Graphs |-> 0] /\ hmemo = [g \in Graphs |-> Dirty]
        /\ sid = None /\ sent = None /\ last = <<>> /\ hist = <<>>

\* ------------------------------------------------------------------ mesh mutators
\* o.vertices[0] = ... : an in-place write through the tracked array of o
EditInPlace(o, v) ==
    /\ Live(o) /\ ideal[o][1] # v
    /\ ideal' = [ideal EXCEPT ![o] = <<v, @[2]>>]
    /\ content' = [p \in Objs |-> IF p \in Shared(o) THEN <<v, content[p][2]>> ELSE content[p]]
    /\ UNCHANGED <<link, pos, idealPos, glink, inS, snap, xver, hmemo, sid, sent>> /\ last' = <<>>
    /\ Log([op |-> "edit", o |-> o, v |-> v])
\* o.vertices = new array : the object gets a buffer of its own
Reassign(o, v) ==
    /\ Live(o) /\ ideal[o][1] # v
    /\ ideal' = [ideal EXCEPT ![o] = <<v, @[2]>>]
    /\ content' = [content EXCEPT ![o] = <<v, @[2]>>] /\ link' = Unlink(o)
    /\ UNCHANGED <<pos, idealPos, glink, inS, snap, xver, hmemo, sid, sent>> /\ last' = <<>>
    /\ Log([op |-> "reassign", o |-> o, v |-> v])
\* o.apply_translation(+-d) : a new vertex array is assigned
Translate(o) ==
    /\ Live(o)
    /\ ideal' = [ideal EXCEPT ![o] = <<@[1], 1 - @[2]>>]
    /\ content' = [content EXCEPT ![o] = <<@[1], 1 - @[2]>>] /\ link' = Unlink(o)
    /\ UNCHANGED <<pos, idealPos, glink, inS, snap, xver, hmemo, sid, sent>> /\ last' = <<>>
    /\ Log([op |-> "translate", o |-> o, to |-> 1 - ideal[o][2]])
\* B = A.copy()
CopyMesh ==
    /\ ~Live("B")
    /\ ideal' = [ideal EXCEPT !["B"] = ideal["A"]]
    /\ content' = [content EXCEPT !["B"] = content["A"]]
    /\ link' = IF CopyShares THEN link \cup {{"A", "B"}} ELSE link
    /\ UNCHANGED <<pos, idealPos, glink, inS, snap, xver, hmemo, sid, sent>> /\ last' = <<>>
    /\ Log([op |-> "copy_mesh"])

\* ------------------------------------------------------------------ scene mutators
GraphTouch(g, newpos) ==
    /\ pos' = [h \in Graphs |-> IF h \in GShared(g) THEN newpos ELSE pos[h]]
    /\ xver' = [h \in Graphs |-> IF h \in GShared(g) THEN xver[h] + 1 ELSE xver[h]]
    /\ hmemo' = [h \in Graphs |-> IF h \in GShared(g) /\ ~GraphForgetsDirty THEN Dirty ELSE hmemo[h]]
\* S.add_geometry(B, geom_name='b', node_name='nb', transform=translation(p))
AddToScene(p) ==
    /\ Live("B") /\ ~inS /\ inS' = TRUE
    /\ idealPos' = [idealPos EXCEPT !["GS"]["nb"] = p]
    /\ GraphTouch("GS", [pos["GS"] EXCEPT !["nb"] = p])
    /\ UNCHANGED <<content, ideal, link, glink, snap, sid, sent>> /\ last' = <<>>
    /\ Log([op |-> "add_to_scene", p |-> p])
\* s.graph.update(n, matrix=translation(p))
Move(s, n, p) ==
    /\ SceneLive(s) /\ HasNode(s, n) /\ idealPos[GraphOf(s)][n] # p
    /\ idealPos' = [idealPos EXCEPT ![GraphOf(s)][n] = p]
    /\ GraphTouch(GraphOf(s), [pos[GraphOf(s)] EXCEPT ![n] = p])
    /\ UNCHANGED <<content, ideal, link, glink, inS, snap, sid, sent>> /\ last' = <<>>
    /\ Log([op |-> "move", s |-> s, n |-> n, p |-> p])
\* T = S.copy() | copy.deepcopy(S) | load(S.export('glb'))
Snapshot(kind) ==
    /\ snap = "" /\ snap' = kind
    /\ ideal' = [ideal EXCEPT !["TA"] = ideal["A"], !["TB"] = IF inS THEN ideal["B"] ELSE Absent]
    /\ content' = [content EXCEPT !["TA"] = content["A"], !["TB"] = IF inS THEN content["B"] ELSE Absent]
    /\ link' = IF SnapSharesGeometry /\ kind = "copy"
               THEN link \cup {{"A", "TA"}} \cup (IF inS THEN {{"B", "TB"}} ELSE {}) ELSE link
    /\ idealPos' = [idealPos EXCEPT !["GT"] = idealPos["GS"]]
    /\ pos' = [pos EXCEPT !["GT"] = pos["GS"]]
    /\ glink' = (SnapSharesGraph /\ kind = "copy")
    /\ xver' = [xver EXCEPT !["GT"] = xver["GS"]] /\ hmemo' = [hmemo EXCEPT !["GT"] = Dirty]
    /\ UNCHANGED <<inS, sid, sent>> /\ last' = <<>>
    /\ Log([op |-> "snapshot", kind |-> kind])

\* ------------------------------------------------------------------ reads
ReadMesh(o) ==
    /\ Live(o)
    /\ last' = [got |-> content[o], want |-> ideal[o]]
    /\ UNCHANGED <<content, ideal, link, pos, idealPos, glink, inS, snap, xver, hmemo, sid, sent>>
    /\ Log([op |-> "read_mesh", o |-> o, want |-> ideal[o]])
\* S.bounds / S.area ... through the scene cache keyed on the composed hash
ReadScene(s) ==
    /\ SceneLive(s)
    /\ IF s = "S"
       THEN LET id == Composed
                hit == sid = id /\ sent # None
                val == IF hit THEN sent[1] ELSE BuiltSig("S")
            IN /\ sid' = id /\ sent' = <<val>>
               /\ hmemo' = [hmemo EXCEPT !["GS"] = GraphHash("GS")]
               /\ last' = [got |-> val, want |-> TrueSig("S")]
       ELSE /\ last' = [got |-> BuiltSig("T"), want |-> TrueSig("T")]
            /\ UNCHANGED <<sid, sent, hmemo>>
    /\ UNCHANGED <<content, ideal, link, pos, idealPos, glink, inS, snap, xver>>
    /\ Log([op |-> "read_scene", s |-> s, want |-> TrueSig(s)])
\* hash(S): equal signatures <=> equal hashes (the harness compares all pairs of one behaviour)
ReadHash(s) ==
    /\ SceneLive(s)
    /\ last' = [got |-> BuiltSig(s), want |-> TrueSig(s)]
    /\ hmemo' = [hmemo EXCEPT ![GraphOf(s)] = GraphHash(GraphOf(s))]
    /\ UNCHANGED <<content, ideal, link, pos, idealPos, glink, inS, snap, xver, sid, sent>>
    /\ Log([op |-> "read_hash", s |-> s, want |-> TrueSig(s)])

Positions == {0, 1}
Next == /\ Len(hist) < MaxDepth
        /\ \/ \E o \in Objs, v \in Vals : EditInPlace(o, v) \/ Reassign(o, v)
           \/ \E o \in Objs : Translate(o) \/ ReadMesh(o)
           \/ CopyMesh
           \/ \E p \in Positions : AddToScene(p)
           \/ \E s \in {"S", "T"}, n \in Nodes, p \in Positions : Move(s, n, p)
           \/ \E k \in {"copy", "deepcopy", "glb"} : Snapshot(k)
           \/ \E s \in {"S", "T"} : ReadScene(s) \/ ReadHash(s)
Spec == Init /\ [][Next]_vars

\* ------------------------------------------------------------------ properties
NoStaleRead == last # <<>> => last.got = last.want           \* C01 / C10 / C09 at system level
NoSharedState == content = ideal /\ pos = idealPos            \* C17: only the documented sharing
TypeOK == /\ \A o \in Objs : content[o] = Absent \/ (content[o][1] \in Vals /\ content[o][2] \in {0, 1})
          /\ Live("TA") = (snap # "") /\ (Live("TB") => inS)
\* the graph hash memo, when set, is the hash of the current graph
MemoFresh == \A g \in Graphs : hmemo[g] # Dirty => hmemo[g] = <<xver[g], pos[g]>>

View == <<content, ideal, link, pos, idealPos, glink, inS, snap,
          [g \in Graphs |-> IF hmemo[g] = Dirty THEN 0 ELSE IF hmemo[g] = <<xver[g], pos[g]>> THEN 1 ELSE 2],
          IF sid = None THEN 0 ELSE IF sid = Composed THEN 1 ELSE 2,
          IF sent = None THEN 0 ELSE IF sent[1] = TrueSig("S") THEN 1 ELSE 2,
          last # <<>> /\ last.got # last.want>>
Emit == PrintT(ToJson(hist))
EmitLeaf == (Len(hist) = MaxDepth) => Emit
EmitAll == (Len(hist) > 0 /\ hist[Len(hist)].op \in {"read_mesh", "read_scene", "read_hash"}) => Emit
V2 == {0, 1}
V3 == {0, 1, 2}
=============================================================================
