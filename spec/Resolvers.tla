----------------------------- MODULE Resolvers -----------------------------
(***************************************************************************)
(* trimesh.resolvers: FilePathResolver, ZipResolver and the Resolver       *)
(* interface (get / write / keys / namespaced / __getitem__ / __setitem__ /*)
(* __contains__), ZipResolver.export with trimesh.util.compress /          *)
(* decompress, and the use of a resolver by the OBJ loader (component X02, *)
(* beyond the listed properties).                                          *)
(*                                                                         *)
(* A resolver is a key -> bytes store.  Two layers in one module           *)
(* (DESIGN 2.2):                                                           *)
(*   - property level ("ideal", prefix I): one store per resolver family   *)
(*     (a root resolver and every view derived from it by namespaced());   *)
(*     a view with prefix p reads / writes p/name of that store; get       *)
(*     returns the bytes last written under the name (or under a           *)
(*     documented nearby variant of it when the exact name is absent),     *)
(*     raises otherwise and never creates anything; keys() lists exactly   *)
(*     the names present under the prefix; export() followed by re-opening *)
(*     gives an equal, independent store.                                  *)
(*   - implementation shaped ("as built", prefix A): the archive dicts     *)
(*     (possibly None) that ZipResolver objects point to, the namespace    *)
(*     string each object carries, values kept as bytes / str / file       *)
(*     objects with a read position, the directory a FilePathResolver is   *)
(*     rooted at and the directories that exist.  One action per public    *)
(*     operation, written the way the code is written; every discovered    *)
(*     deviation from the property level is a named member of Dev.         *)
(* Both layers run in lock step; the properties say that the as-built      *)
(* answers and contents equal the ideal ones.  With Dev = {} they hold;    *)
(* with a deviation (or one of the spec-only mutants Mut) switched on TLC  *)
(* reports the corresponding property.                                     *)
(*                                                                         *)
(* Names and keys are sequences of path components (<<"t","b.bin">> is     *)
(* "t/b.bin", <<".","a.bin">> is "./a.bin"); payloads are tokens:          *)
(*   0 = empty bytes (only produced by a lossy export), 1,2 = MTL texts    *)
(*   (referring to the texture names TexRef(1), TexRef(2)), 3.. = PNG      *)
(*   images of distinct colours.  The harness maps tokens to real bytes.   *)
(***************************************************************************)
EXTENDS Integers, Sequences, FiniteSets, TLC, Json, SequencesExt

CONSTANTS Kind,         \* "zip" (ZipResolver) or "file" (FilePathResolver)
          Names,        \* names offered to write / get (sequences of components)
          NSs,          \* namespaces offered to namespaced() (single components)
          Toks,         \* payload tokens offered to write
          WForms,       \* forms a payload is handed to write in: "b" bytes, "s" str, "io" file object at position 0,
                        \* "kb" bytes with the call spelled write(name=..., data=...) as in Resolver.write / export_mesh
          LoadRefs,     \* names an OBJ may give in its mtllib line ({} = no Load action)
          MaxV,         \* resolver objects alive in one behaviour
          MaxPre,       \* maximal nesting of namespaces
          MaxDepth,     \* bound on history length
          NoneArchive,  \* zip: the root is constructed as ZipResolver() (archive=None) instead of ZipResolver({})
          Dirs0,        \* file: directories (relative to the root) that exist initially
          Dev,          \* as-built deviations that are switched on (subset of AllDev)
          Snap,         \* TRUE: every history entry carries both states (emission); FALSE: only the step (checking)
          Mut           \* spec-only mutant ("" = none), for the self-tests of the properties

VARIABLES nview,    \* slots 1..nview are live resolver objects (1 = the root)
          iview,    \* ideal:    slot -> [fam, pre]      family and prefix of the view
          istore,   \* ideal:    family -> set of [k, t] the store of the family
          nfam,
          aview,    \* as built: slot -> [aid, ns]       zip: archive pointer (0 = None) and namespace; file: 1 and root-relative directory
          aheap,    \* as built: archive id -> set of [k, t, f]   (file: archive 1 is the directory tree)
          naid,
          dirs,     \* file: existing directories (environment; both layers)
          kcache,   \* only for Mut = "StaleKeys": slot -> cached listing
          last,     \* the last operation with both answers
          fired,    \* deviations that made the as-built layer depart from the ideal one so far (in order)
          hist      \* emission / replay only

vars == <<nview, iview, istore, nfam, aview, aheap, naid, dirs, kcache, last, fired, hist>>
\* the length of the history stays in the view: the depth bound is then exact and the search deterministic
View == <<nview, iview, istore, nfam, aview, aheap, naid, dirs, kcache, last, Len(hist)>>

AllDev == {"ZipWriteIgnoresNamespace", "ZipGetPrefersRawKey", "ZipNestedNamespaceReplaces",
           "ZipNoneArchiveUnshared", "ZipExportConsumesStreams", "ZipWriteKeywordNames",
           "FileKeysLeadingSeparator", "FileNamespacedMissingDirIsParent"}
AllMut == {"", "StaleKeys", "GetCreates", "CaseFold", "ExportDropsDirs", "WriteThroughCopy"}
ASSUME Dev \subseteq AllDev /\ Mut \in AllMut /\ Kind \in {"zip", "file"}

D(x) == x \in Dev
M(x) == Mut = x
MaxA == 2 * MaxV

\* ------------------------------------------------------------------ payloads
IsMtl(t) == t \in {1, 2}
IsPng(t) == t >= 3
TexRef(t) == IF t = 1 THEN <<"t", "b.bin">> ELSE <<".", "a.bin">>
FormOK(t, f) == /\ (f = "s" => IsMtl(t))                       \* only texts can be handed over as str
                /\ (Kind = "file" => f \in {"b", "s", "kb"})   \* FilePathResolver.write takes str or bytes

\* ---------------------------------------------------------------------- keys
HasPre(k, p) == Len(k) >= Len(p) /\ SubSeq(k, 1, Len(p)) = p
Strip(k, p)  == SubSeq(k, Len(p) + 1, Len(k))
Base(n)      == <<n[Len(n)]>>                                       \* os.path.split(x)[-1]
Trim(n)      == IF Len(n) > 1 /\ n[1] = "." THEN Tail(n) ELSE n      \* trim("./", x)
DropDots(k)  == SelectSeq(k, LAMBDA c : c # ".")
DirOf(k)     == SubSeq(k, 1, Len(k) - 1)
\* the file system identifies a/./b with a/b; archive keys are literal strings
Canon(k)     == IF Kind = "file" THEN DropDots(k) ELSE k
Lower(c)     == IF c = "A.bin" THEN "a.bin" ELSE c
AK(k)        == IF M("CaseFold") THEN [i \in 1..Len(k) |-> Lower(k[i])] ELSE k

Has(S, k) == \E e \in S : e.k = k
At(S, k)  == CHOOSE e \in S : e.k = k
Put(S, e) == {x \in S : x.k # e.k} \cup {e}
FirstHit(S, opts) == LET I == {i \in 1..Len(opts) : Has(S, opts[i])}
                     IN IF I = {} THEN 0 ELSE CHOOSE i \in I : \A j \in I : i <= j
Content(S) == {[k |-> e.k, t |-> e.t] : e \in S}
KeysUnder(S, p) == {Strip(e.k, p) : e \in {x \in S : HasPre(x.k, p) /\ Len(x.k) > Len(p)}}

Miss == [exc |-> TRUE, val |-> -1]

\* --------------------------------------------------------- property level (I)
IPre(v)   == iview[v].pre
IStore(v) == istore[iview[v].fam]
IKey(v, n) == Canon(IPre(v) \o n)
\* documented recovery when the exact name is absent: "./" stripped, then the bare file name
\* (ZipResolver: nearby_names; FilePathResolver: os.path.split(name)[-1]), always inside the view
IOpts(v, n) == IF Kind = "zip" THEN <<IPre(v) \o n, IPre(v) \o Trim(n), IPre(v) \o Base(n)>>
               ELSE <<IKey(v, n), Canon(IPre(v) \o Base(n))>>
IGet(v, n) == LET o == IOpts(v, n)  h == FirstHit(IStore(v), o)
              IN IF h = 0 THEN Miss ELSE [exc |-> FALSE, val |-> At(IStore(v), o[h]).t]
IKeys(v) == KeysUnder(IStore(v), IPre(v))
\* FilePathResolver.write does not create directories (accepted: the write raises and nothing is stored)
IWriteExc(v, n) == Kind = "file" /\ DirOf(IKey(v, n)) # <<>> /\ DirOf(IKey(v, n)) \notin dirs

AnyLoad == [any |-> TRUE, mtl |-> FALSE, tex |-> 0]
\* what trimesh.load(<obj with `mtllib m`>, resolver=view) must find, G = the view's get
LoadVia(G(_), m) ==
    LET r == G(m) IN
    IF r.exc THEN [any |-> FALSE, mtl |-> FALSE, tex |-> 0]
    ELSE IF ~IsMtl(r.val) THEN AnyLoad                         \* not an MTL text: unconstrained
    ELSE LET q == G(TexRef(r.val)) IN
         IF q.exc THEN [any |-> FALSE, mtl |-> TRUE, tex |-> 0]
         ELSE IF IsPng(q.val) THEN [any |-> FALSE, mtl |-> TRUE, tex |-> q.val]
         ELSE AnyLoad                                          \* not an image: unconstrained
ILoad(v, m) == LoadVia(LAMBDA x : IGet(v, x), m)

\* ------------------------------------------------------------- as built (A)
ANs(v)  == aview[v].ns
AAid(v) == aview[v].aid
AS(v)   == IF AAid(v) = 0 THEN {} ELSE aheap[AAid(v)]
AMiss   == [exc |-> TRUE, val |-> -1, form |-> "-", key |-> <<>>]
\* ZipResolver.get: `name in archive` on the raw name first, then nearby_names(name, namespace):
\* for names without blanks, backslashes, %20 and ".." the distinct candidates are, in order,
\* ns+name, ns+trim("./",name), ns+basename(name)
ZipNearby(ns, n) == <<AK(ns \o n), AK(ns \o Trim(n)), AK(ns \o Base(n))>>
AOpts(v, n) == IF Kind = "zip"
               THEN (IF D("ZipGetPrefersRawKey") THEN <<AK(n)>> ELSE <<>>) \o ZipNearby(ANs(v), n)
               \* FilePathResolver.get: parent/name, else parent/basename(name)
               ELSE <<AK(Canon(ANs(v) \o n)), AK(Canon(ANs(v) \o Base(n)))>>
AGetIn(S, o) == LET h == FirstHit(S, o) IN
                IF h = 0 THEN AMiss
                ELSE LET e == At(S, o[h]) IN
                     [exc |-> FALSE, val |-> e.t, form |-> IF e.f = "s" THEN "s" ELSE "b", key |-> e.k]
\* archive None: `name in None` raises TypeError
AGet(v, n) == IF AAid(v) = 0 THEN AMiss ELSE AGetIn(AS(v), AOpts(v, n))
Short(r) == [exc |-> r.exc, val |-> r.val]
\* get() on a file object: seek(0), read(), seek(0)
Rewind(S, ks) == {IF e.k \in ks /\ e.f \in {"io0", "ioE"} THEN [e EXCEPT !.f = "io0"] ELSE e : e \in S}
LeadSep(r) == IF D("FileKeysLeadingSeparator") /\ Len(r) > 1 THEN <<"">> \o r ELSE r
AKeysNow(v) == IF Kind = "zip" THEN KeysUnder(AS(v), ANs(v))
               \* os.walk: path[len(parent):] keeps the separator in front of sub-directories
               ELSE {LeadSep(r) : r \in KeysUnder(AS(v), ANs(v))}
ALoad(v, m) == LoadVia(LAMBDA x : Short(AGet(v, x)), m)
\* the raw-name lookup of a namespaced ZipResolver decided the answer of get(n)
RawFires(v, n) == /\ Kind = "zip" /\ D("ZipGetPrefersRawKey") /\ ANs(v) # <<>> /\ AAid(v) # 0
                  /\ Short(AGetIn(AS(v), ZipNearby(ANs(v), n))) # Short(AGet(v, n))
\* deviations that act inside a read of n through v (they change no state)
ReadFires(v, n) == (IF AAid(v) = 0 THEN {"ZipNoneArchiveUnshared"} ELSE {})
                   \cup (IF RawFires(v, n) THEN {"ZipGetPrefersRawKey"} ELSE {})
KeysFires(v) == (IF AAid(v) = 0 THEN {"ZipNoneArchiveUnshared"} ELSE {})
                \cup (IF Kind = "file" /\ D("FileKeysLeadingSeparator") /\ AAid(v) # 0 /\ \E r \in AKeysNow(v) : r[1] = ""
                      THEN {"FileKeysLeadingSeparator"} ELSE {})

\* ------------------------------------------------------------ bookkeeping
Fire(S) == fired' = fired \o SetToSeq({d \in S : ~\E i \in 1..Len(fired) : fired[i] = d})
IStateJ(iv, is, nv, nf) == [views  |-> [v \in 1..nv |-> iv[v]],
                            stores |-> [f \in 1..nf |-> SetToSeq(is[f])]]
AStateJ(av, ah, nv, na) == [views |-> [v \in 1..nv |-> av[v]],
                            heaps |-> [a \in 1..na |-> SetToSeq(ah[a])]]
Log(rec, iv, is, nv, nf, av, ah, na, dd) ==
    hist' = Append(hist, IF Snap
                         THEN [step |-> rec, fired |-> fired',
                               ist |-> IStateJ(iv, is, nv, nf), ast |-> AStateJ(av, ah, nv, na),
                               dirs |-> SetToSeq(dd)]
                         ELSE [step |-> rec])

RootNone == Kind = "zip" /\ NoneArchive /\ D("ZipNoneArchiveUnshared")
INull == [fam |-> 0, pre |-> <<>>]
ANull == [aid |-> -1, ns |-> <<>>]

Init == /\ nview = 1
        /\ iview = [v \in 1..MaxV |-> IF v = 1 THEN [fam |-> 1, pre |-> <<>>] ELSE INull]
        /\ istore = [f \in 1..MaxV |-> {}]
        /\ nfam = 1
        /\ aview = [v \in 1..MaxV |-> IF v = 1 THEN [aid |-> IF RootNone THEN 0 ELSE 1, ns |-> <<>>] ELSE ANull]
        /\ aheap = [a \in 1..MaxA |-> {}]
        /\ naid = IF RootNone THEN 0 ELSE 1
        /\ dirs = IF Kind = "file" THEN Dirs0 ELSE {}
        /\ kcache = [v \in 1..MaxV |-> {<<"-">>}]
        /\ last = [op |-> "init", v |-> 0, w |-> 0, ires |-> Miss, ares |-> Miss]
        /\ fired = <<>>
        /\ hist = <<>>

\* ------------------------------------------------------------------ actions
\* resolver.write(name, data) / resolver[name] = data
Write(v, n, t, f) ==
    /\ FormOK(t, f)
    /\ LET fam   == iview[v].fam
           ikey  == IKey(v, n)
           iexc  == IWriteExc(v, n)
           is1   == IF iexc THEN istore ELSE [istore EXCEPT ![fam] = Put(@, [k |-> ikey, t |-> t])]
           \* --- as built
           zip   == Kind = "zip"
           \* ZipResolver.write: self.archive[key] = value  (the namespace is not consulted)
           akey  == AK(IF zip THEN (IF D("ZipWriteIgnoresNamespace") THEN n ELSE ANs(v) \o n)
                       ELSE Canon(ANs(v) \o n))
           \* ZipResolver.write(self, key, value): the parameter names of the interface are not accepted
           kwbad == zip /\ f = "kb" /\ D("ZipWriteKeywordNames")
           aexc  == kwbad \/ (~zip /\ DirOf(akey) # <<>> /\ DirOf(akey) \notin dirs)
           ff    == IF f = "io" THEN "io0" ELSE IF zip /\ f = "s" THEN "s" ELSE "b"
           \* `if self.archive is None: self.archive = {}`: a private dict nobody else points to
           fresh == AAid(v) = 0 /\ ~aexc
           aid1  == IF fresh THEN naid + 1 ELSE AAid(v)
           av1   == IF fresh THEN [aview EXCEPT ![v].aid = aid1] ELSE aview
           ah1   == IF aexc THEN aheap ELSE [aheap EXCEPT ![aid1] = Put(@, [k |-> akey, t |-> t, f |-> ff])]
           na1   == IF fresh THEN naid + 1 ELSE naid
       IN /\ istore' = is1 /\ aview' = av1 /\ aheap' = ah1 /\ naid' = na1
          /\ last' = [op |-> "write", v |-> v, w |-> 0,
                      ires |-> [exc |-> iexc, val |-> 0], ares |-> [exc |-> aexc, val |-> 0]]
          /\ Fire((IF zip /\ ~kwbad /\ D("ZipWriteIgnoresNamespace") /\ ANs(v) # <<>> THEN {"ZipWriteIgnoresNamespace"} ELSE {})
                  \cup (IF fresh THEN {"ZipNoneArchiveUnshared"} ELSE {})
                  \cup (IF kwbad THEN {"ZipWriteKeywordNames"} ELSE {}))
          /\ Log([op |-> "write", v |-> v, n |-> n, t |-> t, f |-> f, ifam |-> fam, ikey |-> ikey,
                  exp |-> [exc |-> iexc, val |-> 0], asb |-> [exc |-> aexc, val |-> 0]],
                 iview, is1, nview, nfam, av1, ah1, na1, dirs)
    /\ UNCHANGED <<nview, iview, nfam, dirs, kcache>>

\* resolver.get(name) / resolver[name]
Get(v, n) ==
    LET ir  == IGet(v, n)
        ar  == AGet(v, n)
        aid == AAid(v)
        ah1 == IF aid = 0 THEN aheap
               ELSE IF ar.exc
               THEN (IF M("GetCreates") THEN [aheap EXCEPT ![aid] = Put(@, [k |-> AOpts(v, n)[1], t |-> 0, f |-> "b"])]
                     ELSE aheap)
               ELSE [aheap EXCEPT ![aid] = Rewind(@, {ar.key})]
    IN /\ aheap' = ah1
       /\ last' = [op |-> "get", v |-> v, w |-> 0, ires |-> ir, ares |-> Short(ar)]
       /\ Fire(ReadFires(v, n))
       /\ Log([op |-> "get", v |-> v, n |-> n, exp |-> ir, asb |-> [exc |-> ar.exc, val |-> ar.val, form |-> ar.form]],
              iview, istore, nview, nfam, aview, ah1, naid, dirs)
       /\ UNCHANGED <<nview, iview, istore, nfam, aview, naid, dirs, kcache>>

\* resolver.keys()  (and `name in resolver`)
Keys(v) ==
    LET ik   == IKeys(v)
        none == AAid(v) = 0                       \* None.keys(): AttributeError
        now  == AKeysNow(v)
        ak   == IF M("StaleKeys") /\ kcache[v] # {<<"-">>} THEN kcache[v] ELSE now
        ir   == [exc |-> FALSE, val |-> ik]
        ar   == [exc |-> none, val |-> IF none THEN {} ELSE ak]
    IN /\ kcache' = IF M("StaleKeys") /\ ~none THEN [kcache EXCEPT ![v] = ak] ELSE kcache
       /\ last' = [op |-> "keys", v |-> v, w |-> 0, ires |-> ir, ares |-> ar]
       /\ Fire((IF none THEN {"ZipNoneArchiveUnshared"} ELSE {})
               \cup (IF Kind = "file" /\ D("FileKeysLeadingSeparator") /\ \E r \in ak : r[1] = ""
                     THEN {"FileKeysLeadingSeparator"} ELSE {}))
       /\ Log([op |-> "keys", v |-> v, exp |-> [exc |-> FALSE, val |-> SetToSeq(ik)],
               asb |-> [exc |-> none, val |-> SetToSeq(ar.val)]],
              iview, istore, nview, nfam, aview, aheap, naid, dirs)
       /\ UNCHANGED <<nview, iview, istore, nfam, aview, aheap, naid, dirs>>

\* resolver.namespaced(s): a new resolver object in slot nview + 1
Namespaced(v, s) ==
    /\ nview < MaxV /\ Len(IPre(v)) < MaxPre
    /\ LET w   == nview + 1
           iv1 == [iview EXCEPT ![w] = [fam |-> iview[v].fam, pre |-> IPre(v) \o <<s>>]]
           tgt == ANs(v) \o <<s>>
           \* ZipResolver(archive=self.archive, namespace=namespace): the own namespace is dropped
           zns == IF D("ZipNestedNamespaceReplaces") THEN <<s>> ELSE tgt
           \* FilePathResolver(os.path.join(parent, namespace)): "not a directory -> use its parent"
           fns == IF tgt \in dirs \/ ~D("FileNamespacedMissingDirIsParent") THEN tgt ELSE ANs(v)
           \* Mut WriteThroughCopy: the view gets its own copy of the archive
           cp  == M("WriteThroughCopy") /\ AAid(v) # 0
           av1 == [aview EXCEPT ![w] = [aid |-> IF cp THEN naid + 1 ELSE AAid(v),
                                        ns |-> IF Kind = "zip" THEN zns ELSE fns]]
           ah1 == IF cp THEN [aheap EXCEPT ![naid + 1] = AS(v)] ELSE aheap
           na1 == IF cp THEN naid + 1 ELSE naid
       IN /\ nview' = w /\ iview' = iv1 /\ aview' = av1 /\ aheap' = ah1 /\ naid' = na1
          /\ last' = [op |-> "namespaced", v |-> v, w |-> w, ires |-> Miss, ares |-> Miss]
          /\ Fire((IF Kind = "zip" /\ zns # tgt THEN {"ZipNestedNamespaceReplaces"} ELSE {})
                  \cup (IF Kind = "file" /\ fns # tgt THEN {"FileNamespacedMissingDirIsParent"} ELSE {})
                  \cup (IF AAid(v) = 0 THEN {"ZipNoneArchiveUnshared"} ELSE {}))
          /\ Log([op |-> "namespaced", v |-> v, s |-> s, w |-> w],
                 iv1, istore, w, nfam, av1, ah1, na1, dirs)
    /\ UNCHANGED <<istore, nfam, dirs, kcache>>

\* data = resolver.export(); ZipResolver(trimesh.util.decompress(data, "zip")) in slot nview + 1
Export(v) ==
    /\ Kind = "zip" /\ nview < MaxV /\ IPre(v) = <<>>
    /\ AAid(v) # 0                 \* util.compress(None) raises AttributeError: there is nothing to re-open
    /\ LET w    == nview + 1
           f1   == nfam + 1
           iv1  == [iview EXCEPT ![w] = [fam |-> f1, pre |-> <<>>]]
           is1  == [istore EXCEPT ![f1] = IStore(v)]
           S    == AS(v)
           a1   == naid + 1
           lossy == D("ZipExportConsumesStreams")
           \* util.compress: `data.read()` from wherever the file object stands, and leaves it at the end
           out  == {[k |-> e.k, t |-> IF lossy /\ e.f = "ioE" THEN 0 ELSE e.t, f |-> "io0"] :
                     e \in {x \in S : ~(M("ExportDropsDirs") /\ Len(x.k) > 1)}}
           src  == {IF e.f \in {"io0", "ioE"} THEN [e EXCEPT !.f = "ioE"] ELSE e : e \in S}
           av1  == [aview EXCEPT ![w] = [aid |-> a1, ns |-> <<>>]]
           ah1  == [aheap EXCEPT ![AAid(v)] = src, ![a1] = out]
       IN /\ nview' = w /\ iview' = iv1 /\ istore' = is1 /\ nfam' = f1
          /\ aview' = av1 /\ aheap' = ah1 /\ naid' = a1
          /\ last' = [op |-> "export", v |-> v, w |-> w, ires |-> Miss, ares |-> Miss]
          /\ Fire(IF lossy /\ \E e \in S : e.f \in {"io0", "ioE"} THEN {"ZipExportConsumesStreams"} ELSE {})
          /\ Log([op |-> "export", v |-> v, w |-> w, ifam |-> iview[v].fam, newfam |-> f1],
                 iv1, is1, w, f1, av1, ah1, a1, dirs)
    /\ UNCHANGED <<dirs, kcache>>

\* trimesh.load(<OBJ text with `mtllib m`>, file_type="obj", resolver=view)
Load(v, m) ==
    LET ir  == ILoad(v, m)
        ar  == ALoad(v, m)
        g1  == AGet(v, m)
        g2  == IF ~g1.exc /\ IsMtl(g1.val) THEN AGet(v, TexRef(g1.val)) ELSE AMiss
        ah1 == IF AAid(v) = 0 THEN aheap ELSE [aheap EXCEPT ![AAid(v)] = Rewind(@, {g1.key, g2.key})]
    IN /\ ~ir.any /\ ~ar.any
       /\ aheap' = ah1
       /\ last' = [op |-> "load", v |-> v, w |-> 0, ires |-> ir, ares |-> ar]
       /\ Fire(ReadFires(v, m) \cup (IF ~g1.exc /\ IsMtl(g1.val) THEN ReadFires(v, TexRef(g1.val)) ELSE {}))
       /\ Log([op |-> "load", v |-> v, n |-> m, exp |-> ir, asb |-> ar],
              iview, istore, nview, nfam, aview, ah1, naid, dirs)
       /\ UNCHANGED <<nview, iview, istore, nfam, aview, naid, dirs, kcache>>

\* environment: somebody creates a sub-directory of the root
DirU == {<<"t">>, <<"t", "t">>}
Mkdir(d) ==
    /\ Kind = "file" /\ d \notin dirs /\ (DirOf(d) = <<>> \/ DirOf(d) \in dirs)
    /\ dirs' = dirs \cup {d}
    /\ last' = [op |-> "mkdir", v |-> 0, w |-> 0, ires |-> Miss, ares |-> Miss]
    /\ Fire({})
    /\ Log([op |-> "mkdir", d |-> d], iview, istore, nview, nfam, aview, aheap, naid, dirs')
    /\ UNCHANGED <<nview, iview, istore, nfam, aview, aheap, naid, kcache>>

Live == 1..nview
Next == /\ Len(hist) < MaxDepth
        /\ \/ \E v \in Live, n \in Names, t \in Toks, f \in WForms : Write(v, n, t, f)
           \/ \E v \in Live, n \in Names : Get(v, n)
           \/ \E v \in Live : Keys(v)
           \/ \E v \in Live, s \in NSs : Namespaced(v, s)
           \/ \E v \in Live : Export(v)
           \/ \E v \in Live, m \in LoadRefs : Load(v, m)
           \/ \E d \in DirU : Mkdir(d)

Spec == Init /\ [][Next]_vars

\* --------------------------------------------------------------- properties
\* get(name) returns exactly the bytes last written under that name through whichever view wrote
\* it, and raises for a name that was never written
GetReturnsLastWritten == last.op = "get" => last.ares = last.ires
\* keys() lists exactly the names present (under the prefix of the view), immediately
KeysListExactlyPresent == last.op = "keys" => last.ares = last.ires
WriteOutcome == last.op = "write" => last.ares.exc = last.ires.exc
\* every object of a family sees the one store of the family under its own prefix: a write through
\* one view is visible through the parent and the siblings, a failed get creates nothing
ViewsShareStore == \A v \in Live : /\ ANs(v) = IPre(v)
                                  /\ Content(AS(v)) = IStore(v)
                                  /\ \A u \in Live : iview[u].fam = iview[v].fam <=> AAid(u) = AAid(v)
\* export() and re-opening give an equal store
ExportRoundTrips == last.op = "export" => Content(AS(last.w)) = Content(AS(last.v))
\* a model loaded through a view finds its MTL and its texture
LoadFindsAssets == last.op = "load" => last.ares = last.ires
\* FilePathResolver stays inside its root: keys never leave through ".." or an absolute component
Confined == Kind = "file" => \A e \in aheap[1] : \A i \in 1..Len(e.k) : e.k[i] \notin {"", ".."}
TypeOK == /\ nview \in 1..MaxV /\ nfam \in 1..MaxV /\ naid \in 0..MaxA
          /\ \A v \in Live : iview[v].fam \in 1..nfam /\ AAid(v) \in 0..naid

\* sanity of the property level itself against the sentence it formalises (uses the history: only
\* meaningful in runs without VIEW): the ideal store of a family holds exactly the last token
\* successfully written under each key, where a re-opened export inherits the history of its source
RECURSIVE LastW(_, _, _)
LastW(f, key, i) ==
    IF i = 0 THEN -1
    ELSE LET h == hist[i].step IN
         IF h.op = "write" /\ ~h.exp.exc /\ h.ifam = f /\ h.ikey = key THEN h.t
         ELSE IF h.op = "export" /\ h.newfam = f THEN LastW(h.ifam, key, i - 1)
         ELSE LastW(f, key, i - 1)
IdealLastWritten ==
    /\ \A f \in 1..nfam : \A e \in istore[f] : LastW(f, e.k, Len(hist)) = e.t
    /\ \A i \in 1..Len(hist) : LET h == hist[i].step IN
          (h.op = "write" /\ ~h.exp.exc) => Has(istore[h.ifam], h.ikey)
    /\ \A v \in Live, n \in Names : Has(IStore(v), IKey(v, n)) => IGet(v, n) = [exc |-> FALSE, val |-> At(IStore(v), IKey(v, n)).t]

\* ----------------------------------------------------------------- emission
Also(S) == fired \o SetToSeq({d \in S : ~\E i \in 1..Len(fired) : fired[i] = d})
SweepGets == SetToSeq({[v |-> v, n |-> n, exp |-> IGet(v, n), fired |-> Also(ReadFires(v, n)),
                        asb |-> LET r == AGet(v, n) IN [exc |-> r.exc, val |-> r.val, form |-> r.form]] :
                       v \in Live, n \in Names})
SweepKeys == [v \in Live |-> [exp |-> [exc |-> FALSE, val |-> SetToSeq(IKeys(v))], fired |-> Also(KeysFires(v)),
                              asb |-> [exc |-> AAid(v) = 0, val |-> IF AAid(v) = 0 THEN <<>> ELSE SetToSeq(AKeysNow(v))]]]
Beh == [kind |-> Kind, none |-> NoneArchive, dirs0 |-> SetToSeq(Dirs0), h |-> hist,
        fired |-> fired, gets |-> SweepGets, keys |-> SweepKeys]
EmitAll  == PrintT(ToJson(Beh))
EmitLeaf == (Len(hist) = MaxDepth) => PrintT(ToJson(Beh))

\* ------------------------------------------------ constants for the configs
NamesAll == {<<"a.bin">>, <<"A.bin">>, <<".", "a.bin">>, <<"t", "b.bin">>, <<"b.bin">>}
Names4   == {<<"a.bin">>, <<".", "a.bin">>, <<"t", "b.bin">>, <<"b.bin">>}
Names3   == {<<"A.bin">>, <<"t", "b.bin">>, <<"b.bin">>}
Names2   == {<<"t", "b.bin">>, <<"b.bin">>}
NamesCase == {<<"a.bin">>, <<"A.bin">>}
NamesCD  == {<<"a.bin">>, <<"A.bin">>, <<".", "a.bin">>}
NamesDot == {<<"a.bin">>, <<".", "a.bin">>}
Refs2    == {<<"a.bin">>, <<"b.bin">>}
Refs1    == {<<"a.bin">>}
RefsDot  == {<<".", "a.bin">>, <<"t", "b.bin">>}
NoNames  == {}
DirsNone == {}
DirsT    == {<<"t">>}
DirsTT   == {<<"t">>, <<"t", "t">>}
=============================================================================
