------------------------------- MODULE Solids -------------------------------
(***************************************************************************)
(* Created shapes and primitives are valid solids with analytic measures   *)
(* (property C15): batch validator of recorded creation results.           *)
(*                                                                         *)
(* Judged exactly on the produced face array (integers):                   *)
(*   watertight        every undirected edge is used by exactly two faces  *)
(*   winding           every directed edge is used exactly once            *)
(*   single body       the faces are connected through shared edges        *)
(*   Euler number      V - E + F = 2 - 2 * genus for the expected genus    *)
(* Judged in fixed point (values times 10^4, supplied by the harness):     *)
(*   positive volume; for flat-faced lattice shapes (boxes, extrusions of  *)
(*   rectilinear polygons with holes) volume = A.h, area = 2A + P.h and    *)
(*   bounds exactly, from the polygon's shoelace area and perimeter        *)
(*   computed here; for curved shapes the inscribed tessellation never     *)
(*   exceeds the smooth value and approaches it monotonically as the       *)
(*   resolution doubles (series records); vertices of curved shapes lie on *)
(*   the analytic surface (radius residual supplied in fixed point).       *)
(***************************************************************************)
EXTENDS Integers, Sequences, FiniteSets, TLC, Json

Cases == ndJsonDeserialize("cases.ndjson")
VARIABLE i

Abs(x) == IF x < 0 THEN -x ELSE x
DirEdges(f) == {<<f[1], f[2]>>, <<f[2], f[3]>>, <<f[3], f[1]>>}
AllDir(F) == UNION {DirEdges(F[k]) : k \in 1..Len(F)}
Und(e) == {e[1], e[2]}
CountDir(F, e) == Cardinality({k \in 1..Len(F) : e \in DirEdges(F[k])})
CountUnd(F, u) == Cardinality({k \in 1..Len(F) : \E e \in DirEdges(F[k]) : Und(e) = u})
NonDegenerate(F) == \A k \in 1..Len(F) : Cardinality({F[k][1], F[k][2], F[k][3]}) = 3
Watertight(F) == \A e \in AllDir(F) : CountUnd(F, Und(e)) = 2
WindingOK(F) == \A e \in AllDir(F) : CountDir(F, e) = 1 /\ CountDir(F, <<e[2], e[1]>>) = 1
Verts(F) == UNION {{F[k][1], F[k][2], F[k][3]} : k \in 1..Len(F)}
Euler(F) == Cardinality(Verts(F)) - Cardinality({Und(e) : e \in AllDir(F)}) + Len(F)
\* vertex-connectedness (a solid in one piece): grow the reached vertex set through faces
RECURSIVE Grow(_, _, _)
Grow(F, R, n) == LET R2 == R \cup UNION {{F[k][1], F[k][2], F[k][3]} : k \in {k \in 1..Len(F) : {F[k][1], F[k][2], F[k][3]} \cap R # {}}}
                 IN IF R2 = R \/ n = 0 THEN R ELSE Grow(F, R2, n - 1)
Connected(F) == Len(F) = 0 \/ Grow(F, {F[1][1]}, Len(F)) = Verts(F)

\* rectilinear polygon with holes: rings of integer points
Nxt(c, k) == IF k = Len(c) THEN 1 ELSE k + 1
RECURSIVE Shoe(_, _)
Shoe(c, k) == IF k = 0 THEN 0 ELSE c[k][1] * c[Nxt(c, k)][2] - c[Nxt(c, k)][1] * c[k][2] + Shoe(c, k - 1)
Area2(c) == Abs(Shoe(c, Len(c)))
RECURSIVE PerimR(_, _)
PerimR(c, k) == IF k = 0 THEN 0
                ELSE Abs(c[k][1] - c[Nxt(c, k)][1]) + Abs(c[k][2] - c[Nxt(c, k)][2]) + PerimR(c, k - 1)   \* rectilinear
Perim(c) == PerimR(c, Len(c))
RECURSIVE SumA(_, _)
SumA(rs, k) == IF k = 0 THEN 0 ELSE Area2(rs[k]) + SumA(rs, k - 1)
RECURSIVE SumP(_, _)
SumP(rs, k) == IF k = 0 THEN 0 ELSE Perim(rs[k]) + SumP(rs, k - 1)

Solid(c) ==
    IF ~NonDegenerate(c.faces) THEN "degenerate_face"
    ELSE IF ~Watertight(c.faces) THEN "watertight"
    ELSE IF ~WindingOK(c.faces) THEN "winding_consistent"
    ELSE IF c.bodies = 1 /\ ~Connected(c.faces) THEN "single_body"
    \* the statement does not mention the Euler number: it is demanded only where the genus is fixed by
    \* construction and no polygon triangulation engine is involved (c.genus = -1 switches it off)
    ELSE IF c.genus >= 0 /\ Euler(c.faces) # 2 * c.bodies - 2 * c.genus THEN "euler_number"
    ELSE IF c.vol_fp <= 0 THEN "positive_volume"
    ELSE IF c.n_vertices # Cardinality(Verts(c.faces)) THEN "unreferenced_vertices"
    ELSE "ok"

\* flat-faced lattice shapes: exact measures (fixed point scale K = 10^4, |height| h integer)
K == 10000
Flat(c) ==
    LET A2 == Area2(c.shell) - SumA(c.holes, Len(c.holes))             \* twice the polygon area
        P == Perim(c.shell) + SumP(c.holes, Len(c.holes))
        h == Abs(c.height)
    IN IF 2 * c.vol_fp # A2 * h * K THEN "analytic_volume"
       ELSE IF c.area_fp # (A2 + P * h) * K THEN "analytic_area"
       ELSE "ok"

\* curved shapes: volumes of the inscribed tessellation at resolutions n, 2n, 4n (fixed point)
Series(c) ==
    IF \E k \in 1..(Len(c.vols) - 1) : c.vols[k] >= c.vols[k + 1] THEN "volume_grows_with_resolution"
    ELSE IF c.vols[Len(c.vols)] > c.smooth_vol + c.slack THEN "inscribed_volume_exceeds_smooth"
    ELSE IF \E k \in 1..(Len(c.vols) - 2) :
              (c.smooth_vol - c.vols[k + 2]) >= (c.smooth_vol - c.vols[k + 1]) \/ (c.smooth_vol - c.vols[k + 1]) >= (c.smooth_vol - c.vols[k])
         THEN "approaches_smooth_value"
    ELSE IF \E k \in 1..(Len(c.areas) - 1) : c.areas[k] >= c.areas[k + 1] THEN "area_grows_with_resolution"
    ELSE IF c.areas[Len(c.areas)] > c.smooth_area + c.slack THEN "inscribed_area_exceeds_smooth"
    ELSE IF c.radius_residual > c.slack THEN "vertices_on_analytic_surface"
    \* a primitive's closed-form volume / area is the smooth value
    \* (only for the measures the primitive class computes in closed form itself)
    ELSE IF c.has_analytic_vol /\ Abs(c.analytic_vol - c.smooth_vol) > c.slack THEN "primitive_closed_form_volume"
    ELSE IF c.has_analytic_area /\ Abs(c.analytic_area - c.smooth_area) > c.slack THEN "primitive_closed_form_area"
    ELSE "ok"

Clause(c) ==
    CASE c.rec = "solid" -> LET s == Solid(c) IN IF s # "ok" THEN s ELSE IF c.flat THEN Flat(c) ELSE "ok"
      [] c.rec = "series" -> Series(c)
      [] OTHER -> "unknown_record"

Init == i = 1
Next == i < Len(Cases) /\ i' = i + 1
Report == LET c == Cases[i]  cl == IF c.exc # "" THEN "raised" ELSE Clause(c)
          IN IF cl # "ok" THEN PrintT(<<"REJECT", c.id, cl>>) ELSE TRUE
=============================================================================
