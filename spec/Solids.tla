------------------------------- MODULE Solids -------------------------------
(***************************************************************************)
(* Created shapes and primitives are valid solids with analytic measures   *)
(* (property C15): batch validator of recorded creation results.           *)
(*                                                                         *)
(* Judged exactly on the produced face array (integers):                   *)
(*   watertight        every undirected edge is used by exactly two faces  *)
(*   winding           every directed edge is used exactly once            *)
(*   single body       the faces are connected through shared edges        *)
(*   Euler number      V - E + F = 2 - 2 * genus for the expected genus    *)
(* Judged in fixed point (values times 10^4, supplied by the harness):     *)
(*   positive volume; for flat-faced lattice shapes (boxes, extrusions of  *)
(*   rectilinear polygons with holes) volume = A.h, area = 2A + P.h and    *)
(*   bounds exactly, from the polygon's shoelace area and perimeter        *)
(*   computed here; for curved shapes the inscribed tessellation never     *)
(*   exceeds the smooth value and approaches it monotonically as the       *)
(*   resolution doubles (series records); vertices of curved shapes lie on *)
(*   the analytic surface (radius residual supplied in fixed point).       *)
(* Added by the coverage audit:                                            *)
(*   placed    a shape built with a lattice similarity M (signed           *)
(*             permutation times num/den plus a translation), or a         *)
(*             primitive after apply_transform(M), has the bounds, centre  *)
(*             of mass, volume and area of M applied to the unplaced one   *)
(*   segment   cylinders / annuli given by an axis segment                 *)
(*   inertia   boxes exactly (V/12 (b^2 + c^2) in the placed frame);       *)
(*             closed forms of the primitive classes against the smooth    *)
(*             tensor and the inscribed tessellations growing towards it   *)
(*   flat      exact bounds of unplaced prisms / boxes; perimeters of      *)
(*             polygons with Pythagorean (integer length) slanted edges    *)
(***************************************************************************)
EXTENDS Integers, Sequences, FiniteSets, TLC, Json

Cases == ndJsonDeserialize("cases.ndjson")
VARIABLE i

Abs(x) == IF x < 0 THEN -x ELSE x
DirEdges(f) == {<<f[1], f[2]>>, <<f[2], f[3]>>, <<f[3], f[1]>>}
AllDir(F) == UNION {DirEdges(F[k]) : k \in 1..Len(F)}
Und(e) == {e[1], e[2]}
CountDir(F, e) == Cardinality({k \in 1..Len(F) : e \in DirEdges(F[k])})
CountUnd(F, u) == Cardinality({k \in 1..Len(F) : \E e \in DirEdges(F[k]) : Und(e) = u})
NonDegenerate(F) == \A k \in 1..Len(F) : Cardinality({F[k][1], F[k][2], F[k][3]}) = 3
Watertight(F) == \A e \in AllDir(F) : CountUnd(F, Und(e)) = 2
WindingOK(F) == \A e \in AllDir(F) : CountDir(F, e) = 1 /\ CountDir(F, <<e[2], e[1]>>) = 1
Verts(F) == UNION {{F[k][1], F[k][2], F[k][3]} : k \in 1..Len(F)}
Euler(F) == Cardinality(Verts(F)) - Cardinality({Und(e) : e \in AllDir(F)}) + Len(F)
\* vertex-connectedness (a solid in one piece): grow the reached vertex set through faces
RECURSIVE Grow(_, _, _)
Grow(F, R, n) == LET R2 == R \cup UNION {{F[k][1], F[k][2], F[k][3]} : k \in {k \in 1..Len(F) : {F[k][1], F[k][2], F[k][3]} \cap R # {}}}
                 IN IF R2 = R \/ n = 0 THEN R ELSE Grow(F, R2, n - 1)
Connected(F) == Len(F) = 0 \/ Grow(F, {F[1][1]}, Len(F)) = Verts(F)

SetMin(S) == CHOOSE x \in S : \A y \in S : x <= y
SetMax(S) == CHOOSE x \in S : \A y \in S : x >= y

\* rectilinear polygon with holes: rings of integer points
Nxt(c, k) == IF k = Len(c) THEN 1 ELSE k + 1
RECURSIVE Shoe(_, _)
Shoe(c, k) == IF k = 0 THEN 0 ELSE c[k][1] * c[Nxt(c, k)][2] - c[Nxt(c, k)][1] * c[k][2] + Shoe(c, k - 1)
Area2(c) == Abs(Shoe(c, Len(c)))
RECURSIVE PerimR(_, _)
\* edges are axis-parallel or of integer length (3-4-5 ...): CHOOSE fails (machinery error) on any other input
ISqrt(n) == CHOOSE r \in 0..n : r * r = n
EdgeLen(dx, dy) == IF dx = 0 THEN Abs(dy) ELSE IF dy = 0 THEN Abs(dx) ELSE ISqrt(dx * dx + dy * dy)
PerimR(c, k) == IF k = 0 THEN 0
                ELSE EdgeLen(c[k][1] - c[Nxt(c, k)][1], c[k][2] - c[Nxt(c, k)][2]) + PerimR(c, k - 1)
Perim(c) == PerimR(c, Len(c))
RECURSIVE SumA(_, _)
SumA(rs, k) == IF k = 0 THEN 0 ELSE Area2(rs[k]) + SumA(rs, k - 1)
RECURSIVE SumP(_, _)
SumP(rs, k) == IF k = 0 THEN 0 ELSE Perim(rs[k]) + SumP(rs, k - 1)

\* Every directed edge occurs once and so does its reverse.  For non-degenerate faces this is equivalent to
\* Watertight /\ WindingOK (a third face on an undirected edge would repeat one of its two directions) and is
\* evaluated in one pass; the quadratic definitions above only name the clause when it fails.
ClosedOriented(F) == LET D == AllDir(F) IN Cardinality(D) = 3 * Len(F) /\ \A e \in D : <<e[2], e[1]>> \in D

Solid(c) ==
    LET co == ClosedOriented(c.faces) IN
    IF ~NonDegenerate(c.faces) THEN "degenerate_face"
    \* no directed edge repeated but some reverse missing: that edge has a single face (cheap to see);
    \* otherwise the quadratic definition decides which of the two clauses is named
    ELSE IF ~co /\ (Cardinality(AllDir(c.faces)) = 3 * Len(c.faces) \/ ~Watertight(c.faces)) THEN "watertight"
    ELSE IF ~co THEN "winding_consistent"
    ELSE IF c.bodies = 1 /\ ~Connected(c.faces) THEN "single_body"
    \* the statement does not mention the Euler number: it is demanded only where the genus is fixed by
    \* construction and no polygon triangulation engine is involved (c.genus = -1 switches it off)
    ELSE IF c.genus >= 0 /\ Euler(c.faces) # 2 * c.bodies - 2 * c.genus THEN "euler_number"
    ELSE IF c.vol_fp <= 0 THEN "positive_volume"
    ELSE IF c.n_vertices # Cardinality(Verts(c.faces)) THEN "unreferenced_vertices"
    ELSE "ok"

\* flat-faced lattice shapes: exact measures (fixed point scale K = 10^4, |height| h integer)
K == 10000
Flat(c) ==
    LET A2 == Area2(c.shell) - SumA(c.holes, Len(c.holes))             \* twice the polygon area
        P == Perim(c.shell) + SumP(c.holes, Len(c.holes))
        h == Abs(c.height)
        xs == {c.shell[k][1] : k \in 1..Len(c.shell)}
        ys == {c.shell[k][2] : k \in 1..Len(c.shell)}
        \* bkind "prism": unplaced extrusion over z in [0, height] (height may be negative);
        \*       "box": centred box (doubled coordinates compared); "" : bounds not recorded
        lo == IF c.bkind = "prism" THEN <<2 * SetMin(xs), 2 * SetMin(ys), 2 * SetMin({0, c.height})>>
              ELSE <<-SetMax(xs), -SetMax(ys), -h>>
        hi == IF c.bkind = "prism" THEN <<2 * SetMax(xs), 2 * SetMax(ys), 2 * SetMax({0, c.height})>>
              ELSE <<SetMax(xs), SetMax(ys), h>>
    IN IF 2 * c.vol_fp # A2 * h * K THEN "analytic_volume"
       ELSE IF c.area_fp # (A2 + P * h) * K THEN "analytic_area"
       ELSE IF c.bkind # "" /\ \E r \in 1..3 : 2 * c.bounds_fp[1][r] # lo[r] * K \/ 2 * c.bounds_fp[2][r] # hi[r] * K THEN "analytic_bounds"
       ELSE "ok"

\* curved shapes: volumes of the inscribed tessellation at resolutions n, 2n, 4n (fixed point)
Series(c) ==
    IF \E k \in 1..(Len(c.vols) - 1) : c.vols[k] >= c.vols[k + 1] THEN "volume_grows_with_resolution"
    ELSE IF c.vols[Len(c.vols)] > c.smooth_vol + c.slack THEN "inscribed_volume_exceeds_smooth"
    ELSE IF \E k \in 1..(Len(c.vols) - 2) :
              (c.smooth_vol - c.vols[k + 2]) >= (c.smooth_vol - c.vols[k + 1]) \/ (c.smooth_vol - c.vols[k + 1]) >= (c.smooth_vol - c.vols[k])
         THEN "approaches_smooth_value"
    ELSE IF \E k \in 1..(Len(c.areas) - 1) : c.areas[k] >= c.areas[k + 1] THEN "area_grows_with_resolution"
    ELSE IF c.areas[Len(c.areas)] > c.smooth_area + c.slack THEN "inscribed_area_exceeds_smooth"
    ELSE IF c.radius_residual > c.slack THEN "vertices_on_analytic_surface"
    \* a primitive's closed-form volume / area is the smooth value
    \* (only for the measures the primitive class computes in closed form itself)
    ELSE IF c.has_analytic_vol /\ Abs(c.analytic_vol - c.smooth_vol) > c.slack THEN "primitive_closed_form_volume"
    ELSE IF c.has_analytic_area /\ Abs(c.analytic_area - c.smooth_area) > c.slack THEN "primitive_closed_form_area"
    ELSE "ok"


\* ---------------------------------------------------------------- placement law
\* c.M integer 3x3 (signed permutation times num), c.t integer translation numerators, c.den: the map is
\* x |-> (M x + t) / den.  pre / post: [b |-> <<lo, hi>>, com, vol, area] in fixed point.
MatVec(M, v) == [r \in 1..3 |-> M[r][1] * v[1] + M[r][2] * v[2] + M[r][3] * v[3]]
Corners(b) == {<<b[x][1], b[y][2], b[z][3]>> : x \in 1..2, y \in 1..2, z \in 1..2}
Img(c, p) == [r \in 1..3 |-> MatVec(c.M, p)[r] + c.t[r] * K]             \* den times the image
Num(c) == Abs(c.M[1][1] + c.M[1][2] + c.M[1][3])
Placed(c) ==
    LET img == {Img(c, p) : p \in Corners(c.pre.b)}
        lo == [r \in 1..3 |-> SetMin({q[r] : q \in img})]
        hi == [r \in 1..3 |-> SetMax({q[r] : q \in img})]
        cm == Img(c, c.pre.com)
        n == Num(c)
        d == c.den
    IN IF \E r \in 1..3 : Abs(c.post.b[1][r] * d - lo[r]) > c.tol * d \/ Abs(c.post.b[2][r] * d - hi[r]) > c.tol * d THEN "placed_bounds"
       ELSE IF \E r \in 1..3 : Abs(c.post.com[r] * d - cm[r]) > c.tol * d THEN "placed_center_mass"
       ELSE IF c.post.vol <= 0 THEN "placed_positive_volume"
       ELSE IF Abs(c.post.vol * d * d * d - c.pre.vol * n * n * n) > c.tol * (d * d * d + n * n * n) THEN "placed_volume"
       ELSE IF Abs(c.post.area * d * d - c.pre.area * n * n) > c.tol * (d * d + n * n) THEN "placed_area"
       ELSE "ok"

\* cylinder / annulus given by its axis segment a -> b (integer points); axis = 0: not axis-parallel
Segment(c) ==
    IF ~c.solid THEN "segment_closed_surface"
    ELSE IF \E r \in 1..3 : Abs(2 * c.com[r] - (c.a[r] + c.b[r]) * K) > 2 * c.tol THEN "segment_midpoint"
    ELSE IF Abs(c.vol - c.ref_vol) > c.tol THEN "segment_volume"
    ELSE IF c.axis = 0 THEN "ok"
    ELSE IF Abs(c.bounds[1][c.axis] - SetMin({c.a[c.axis], c.b[c.axis]}) * K) > c.tol
            \/ Abs(c.bounds[2][c.axis] - SetMax({c.a[c.axis], c.b[c.axis]}) * K) > c.tol THEN "segment_end_caps"
    ELSE IF \E r \in (1..3) \ {c.axis} : \/ c.bounds[1][r] < c.a[r] * K - c.r_fp - c.tol
                                          \/ c.bounds[2][r] > c.a[r] * K + c.r_fp + c.tol
                                          \/ c.bounds[2][r] - c.bounds[1][r] < c.r_fp THEN "segment_radius"
    ELSE "ok"

\* inertia tensor (about the centre of mass, unit density), fixed point
Trace(I) == I[1][1] + I[2][2] + I[3][3]
BoxInertia(c) ==
    LET e == c.extents
        V == e[1] * e[2] * e[3]
        \* twelve times the moment about local axis i; local axis i lies along world axis c.axes[i]
        D == <<V * (e[2] * e[2] + e[3] * e[3]), V * (e[1] * e[1] + e[3] * e[3]), V * (e[1] * e[1] + e[2] * e[2])>>
    IN IF \E a \in 1..3 : Abs(12 * c.I[c.axes[a]][c.axes[a]] - D[a] * K) > 12 * c.tol THEN "box_inertia_diagonal"
       ELSE IF \E r \in 1..3, s \in 1..3 : r # s /\ Abs(c.I[r][s]) > c.tol THEN "box_inertia_products"
       ELSE "ok"
CurvedInertia(c) ==
    IF c.has_analytic /\ \E r \in 1..3, s \in 1..3 : Abs(c.analytic[r][s] - c.smooth[r][s]) > c.slack THEN "primitive_closed_form_inertia"
    ELSE IF \E k \in 1..(Len(c.tess) - 1) : Trace(c.tess[k]) >= Trace(c.tess[k + 1]) THEN "inertia_grows_with_resolution"
    ELSE IF Trace(c.tess[Len(c.tess)]) > Trace(c.smooth) + c.slack THEN "inscribed_inertia_exceeds_smooth"
    ELSE IF \E r \in 1..3, s \in 1..3 : Abs(c.tess[Len(c.tess)][r][s] - c.smooth[r][s]) > c.near THEN "inertia_approaches_smooth_value"
    ELSE "ok"

Clause(c) ==
    CASE c.rec = "solid" -> LET s == Solid(c) IN IF s # "ok" THEN s ELSE IF c.flat THEN Flat(c) ELSE "ok"
      [] c.rec = "series" -> Series(c)
      [] c.rec = "placed" -> Placed(c)
      [] c.rec = "segment" -> Segment(c)
      [] c.rec = "inertia" -> IF c.mode = "box" THEN BoxInertia(c) ELSE CurvedInertia(c)
      [] OTHER -> "unknown_record"

Init == i = 1
Next == i < Len(Cases) /\ i' = i + 1
Report == LET c == Cases[i]  cl == IF c.exc # "" THEN "raised" ELSE Clause(c)
          IN IF cl # "ok" THEN PrintT(<<"REJECT", c.id, cl>>) ELSE TRUE
=============================================================================
