------------------------- MODULE C02ContainerHash -------------------------
(***************************************************************************)
(* Property C02, container level: the hash of an object built on tracked   *)
(* arrays (mesh, point cloud, 2D/3D path, colour / texture visual, scene)  *)
(* is a function of the bytes of its member arrays and nothing else:       *)
(*                                                                         *)
(*   SameBytesSameHash        equal member bytes at two reads => equal     *)
(*                            hash (including after an edit was reverted,  *)
(*                            and between two objects built separately)    *)
(*   ChangedBytesChangedHash  different member bytes => different hash     *)
(*   HashEqualsFresh          every read equals the hash of an object      *)
(*                            freshly built from copies of the bytes       *)
(*                                                                         *)
(* A record is one history on one real object:                             *)
(*   k[i]  identity of the member bytes at the i-th read (Python numbers   *)
(*         distinct byte strings 0,1,2.. in order of first occurrence)     *)
(*   h[i]  identity of the hash value returned at the i-th read            *)
(*   f[i]  identity (same numbering as h) of the hash of the fresh object  *)
(* Only routes that the property-level model (TrackedArray.tla, intended   *)
(* design and as-built agree here) predicts to be fresh are used: edits go *)
(* through the member object fetched from the container, by overridden     *)
(* routes or by the public setter.                                         *)
(***************************************************************************)
EXTENDS Integers, Sequences, FiniteSets, TLC, Json

Cases == ndJsonDeserialize("cases.ndjson")
VARIABLE i

Idx(c) == 1..Len(c.h)

Clause(c) ==
    IF c.exc # "" THEN "raised"
    ELSE IF Len(c.k) # Len(c.h) \/ Len(c.f) # Len(c.h) \/ Len(c.h) < 2 THEN "malformed"
    ELSE IF \E a \in Idx(c) : c.h[a] # c.f[a] THEN "HashEqualsFresh"
    ELSE IF \E a, b \in Idx(c) : c.k[a] = c.k[b] /\ c.h[a] # c.h[b] THEN "SameBytesSameHash"
    ELSE IF \E a, b \in Idx(c) : c.k[a] # c.k[b] /\ c.h[a] = c.h[b] THEN "ChangedBytesChangedHash"
    ELSE "ok"

Init == i = 1
Next == i < Len(Cases) /\ i' = i + 1
Report == LET cl == Clause(Cases[i])
          IN IF cl # "ok" THEN PrintT(<<"REJECT", Cases[i].id, cl>>) ELSE TRUE
=============================================================================
