--------------------------- MODULE SceneRegistry ---------------------------
(***************************************************************************)
(* The geometry registry of trimesh.Scene (check X03).                     *)
(*                                                                         *)
(*   scene.geometry          ordered dict  geometry name -> geometry       *)
(*   scene.graph.transforms  forest of nodes (EnforcedForest.parents /     *)
(*                           edge_data / node_data), node_data[n]          *)
(*                           ["geometry"] = name of the instanced geometry *)
(*   graph.nodes_geometry / geometry_nodes    listings memoised in         *)
(*                           SceneGraph._cache, keyed by the dirty-flag    *)
(*                           memo EnforcedForest._hash                     *)
(*   scene.duplicate_nodes / bounds           memoised in Scene._cache,    *)
(*                           keyed by Scene.__hash__                       *)
(*                                                                         *)
(* One action per public operation, written the way the code is written    *)
(* (scene/scene.py add_geometry, delete_geometry, append_scenes, subscene, *)
(* duplicate_nodes; scene/transforms.py update / add_edge / remove_node /  *)
(* remove_geometries; util.unique_name).  Names are structured:            *)
(*   [b |-> base, k |-> numeric suffix or -1, r |-> 0 or the number of the *)
(*    add_geometry(Scene) call that appended a random util.unique_id()]    *)
(* so that unique_name can be stated exactly ("a", "a_1", "geometry_3").   *)
(* Transforms are translations along x (integers): enough to tell world    *)
(* placements apart; products of general matrices are C09's business.      *)
(*                                                                         *)
(* Named deviation of the code from the stated behaviour (constant):       *)
(*   AsBuiltDupNeedsPath   duplicate_nodes looks the geometry name up via  *)
(*       graph[node], which needs a path from the base frame: it raises    *)
(*       when an instance node is detached (after remove_node of an        *)
(*       ancestor): clause (5) DupCorrect fails.                           *)
(* Accommodations (modelled as built, not judged):                         *)
(*   add_geometry(node_name = <existing node>) is an UPDATE of that node:  *)
(*       it is re-aimed at the new geometry and re-parented / re-placed    *)
(*       (Scene.scaled relies on exactly this); the geometry it instanced  *)
(*       before stays in scene.geometry.  Only names the scene CHOOSES     *)
(*       (geometry names, default node names) are made unique, so clause   *)
(*       (2) is stated for those.  A list with an explicit node name puts  *)
(*       every element on that one node: the last one stays.               *)
(*   add_geometry(Scene) rebuilds the graph from edge lists: nodes without *)
(*       any edge vanish, root nodes lose their geometry attribute, nodes  *)
(*       of the added scene whose names are taken get a random suffix.     *)
(*   subscene(n) drops n's own geometry (only edges leaving successors).   *)
(*   Adding the same object twice makes two entries (no instancing).       *)
(* Spec mutants (the Mut.. constants) are self-tests: each must make TLC   *)
(* report the clause named next to it.  Clauses about one operation are    *)
(* action properties [][..]_vars (checked on every transition); the state  *)
(* is <<registry, hash memo, graph cache, scene cache>>, `last` holds what *)
(* the operation returned and is not part of the VIEW.                     *)
(***************************************************************************)
EXTENDS Integers, Sequences, FiniteSets, TLC, Json, SequencesExt

CONSTANTS Objs,        \* geometry objects offered (strings: "box" "box2" "tet" "path" "cloud")
          GNames,      \* geometry names a caller passes (base strings)
          NNames,      \* node names a caller passes (base strings)
          Lists,       \* sequences of objects for add_geometry(list)
          Dicts,       \* sequences of [k, o] for add_geometry(dict)
          Recipes,     \* indices of the scenes offered to add_geometry(Scene)
          Ops,         \* enabled operation kinds
          ParentMode,  \* "none" | "inst" | "all": which parent_node_name values are offered
          MaxDepth,
          Emitting,    \* FALSE: the history keeps only its length (model checking)
          AsBuiltDupNeedsPath,
          MutNoUniqueGeom,     \* add_geometry stores under the requested name without unique_name   -> NoOverwrite
          MutNodeNotUnique,    \* default node name = geometry name even when that node exists       -> NoOverwrite
          MutReturnGeomName,   \* add_geometry returns the geometry name instead of the node name    -> AddReturns
          MutDeleteKeepsRefs,  \* delete_geometry forgets graph.remove_geometries                    -> DeleteClean
          MutForgetDirty,      \* remove_geometries does not reset EnforcedForest._hash              -> ListingFresh
          MutSceneKeyNoGraph,  \* Scene.__hash__ ignores the graph                                   -> DupCorrect
          MutSubsceneEdgeTo,   \* subscene keeps edges ENTERING a successor instead of leaving one   -> SubsceneCorrect
          MutSceneNoRemap      \* append_scenes does not rename node names that are taken            -> NoOverwriteScene

VARIABLES st,    \* the registry: [geo, nodes, par, off, ng, rnd]
          hm,    \* EnforcedForest._hash : [d |-> dirty?, c |-> content the memo was computed from]
          gc,    \* SceneGraph._cache    : id + memoised nodes_geometry / geometry_nodes
          sc,    \* Scene._cache         : id + memoised duplicate_nodes / bounds-is-None
          last,  \* what the last operation returned / read
          hist   \* rendered history (emission only)
vars == <<st, hm, gc, sc, last, hist>>
View == <<st, hm, gc, sc, Len(hist)>>

\* ------------------------------------------------------------------ names
NoName   == [b |-> "", k |-> -1, r |-> 0]           \* stands for None
N(b)     == [b |-> b, k |-> -1, r |-> 0]
NK(b, k) == [b |-> b, k |-> k, r |-> 0]
World    == N("world")
Render(n) == (IF n.k = -1 THEN n.b ELSE n.b \o "_" \o ToString(n.k))
             \o (IF n.r > 0 THEN "#" \o ToString(n.r) ELSE "")

\* util.unique_name(start, contains): start if free, else the first free start_i counting on
\* from the numeric suffix of start (range(increment + 1, 2 + increment + len(contains)))
Unique(start, C) ==
    IF start \notin C THEN start
    ELSE LET inc == IF start.k = -1 THEN 0 ELSE start.k
             cand(i) == [b |-> start.b, k |-> i, r |-> 0]
             i == CHOOSE i \in (inc + 1)..(inc + 1 + Cardinality(C)) :
                     cand(i) \notin C /\ \A j \in (inc + 1)..(i - 1) : cand(j) \in C
         IN cand(i)

\* facts about the offered objects (the harness checks them on the real objects)
Meta(o) == IF o = "tet" THEN "a" ELSE ""                       \* geometry.metadata["name"]
File(o) == CASE o = "tet" -> "t.obj" [] o = "path" -> "f.dxf" [] OTHER -> ""   \* geometry.source.file_name
HashClass(o) == CASE o \in {"box", "box2"} -> 1 [] o = "tet" -> 2 [] o = "path" -> 3
                  [] OTHER -> 0                                 \* 0: no identifier_hash (PointCloud)

\* ------------------------------------------------------------ state algebra
EmptyFn == [x \in {} |-> NoName]
Put(f, k, v) == [x \in DOMAIN f \cup {k} |-> IF x = k THEN v ELSE f[x]]
Drop(f, S) == [x \in DOMAIN f \ S |-> f[x]]
Empty == [geo |-> <<>>, nodes |-> {}, par |-> EmptyFn, off |-> EmptyFn, ng |-> EmptyFn, rnd |-> 0]

GeoNames(s) == {s.geo[i].n : i \in DOMAIN s.geo}
GeoObj(s, n) == s.geo[CHOOSE i \in DOMAIN s.geo : s.geo[i].n = n].o

RECURSIVE AncK(_, _, _)
AncK(s, v, k) == IF k = 0 \/ v \notin DOMAIN s.par THEN {v} ELSE {v} \cup AncK(s, s.par[v], k - 1)
Anc(s, v) == AncK(s, v, Cardinality(s.nodes) + 1)               \* v and its ancestors
Desc(s, v) == {d \in s.nodes \cup {v} : v \in Anc(s, d)}        \* v and its successors
RECURSIVE OffK(_, _, _)
OffK(s, v, k) == IF k = 0 \/ v \notin DOMAIN s.par THEN 0 ELSE s.off[v] + OffK(s, s.par[v], k - 1)
WorldOff(s, v) == OffK(s, v, Cardinality(s.nodes) + 1)          \* placement relative to v's root
Attached(s, v) == World \in Anc(s, v)                           \* a path from the base frame exists
Acyclic(s) == \A v \in s.nodes : \E r \in Anc(s, v) : r \notin DOMAIN s.par

\* SceneGraph.update(frame_to = v, frame_from = u, matrix = T(x) [, geometry = g]) -> add_edge(u, v, ..)
GUpdate(s, u, v, x, g) ==
    [s EXCEPT !.nodes = @ \cup {u, v}, !.par = Put(@, v, u), !.off = Put(@, v, x),
              !.ng = IF g = NoName THEN @ ELSE Put(@, v, g)]
\* the update keeps the structure a forest (scope of the statement)
UpdOK(s, u, v) == u # v /\ v # World /\ (v \in s.nodes => u \notin Desc(s, v))

\* Scene.add_geometry(geometry = o, geom_name = gn, node_name = nn, parent_node_name = p, transform = T(x))
AddOne(s, o, gn, nn, p, x) ==
    LET start == IF gn # NoName THEN gn
                 ELSE IF Meta(o) # "" THEN N(Meta(o))
                 ELSE IF File(o) # "" THEN N(File(o))
                 ELSE NK("geometry", Len(s.geo))
        name == IF MutNoUniqueGeom THEN start ELSE Unique(start, GeoNames(s))
        geo2 == IF name \in GeoNames(s)                       \* only under MutNoUniqueGeom: dict assignment
                THEN [i \in DOMAIN s.geo |-> IF s.geo[i].n = name THEN [n |-> name, o |-> o] ELSE s.geo[i]]
                ELSE Append(s.geo, [n |-> name, o |-> o])
        node == IF nn = NoName
                THEN (IF MutNodeNotUnique THEN name ELSE Unique(name, s.nodes))
                ELSE nn                                         \* taken literally: update of that node
        u    == IF p = NoName THEN World ELSE p
    IN [s   |-> GUpdate([s EXCEPT !.geo = geo2], u, node, x, name),
        ret |-> IF MutReturnGeomName THEN name ELSE node,
        dev |-> nn # NoName /\ nn \in s.nodes,                  \* an existing node is re-aimed
        ok  |-> (p = NoName \/ p \in s.nodes) /\ UpdOK(s, u, node)]

\* a list: the same keyword arguments are passed along for every element
RECURSIVE AddSeq(_, _, _, _, _, _, _)
AddSeq(s, os, gn, nn, p, x, i) ==
    IF i > Len(os) THEN [s |-> s, ret |-> <<>>, dev |-> FALSE, ok |-> TRUE]
    ELSE LET a == AddOne(s, os[i], gn, nn, p, x)
             r == AddSeq(a.s, os, gn, nn, p, x, i + 1)
         IN [s |-> r.s, ret |-> <<a.ret>> \o r.ret, dev |-> a.dev \/ r.dev, ok |-> a.ok /\ r.ok]
\* a dict: add_geometry(geometry = v, geom_name = k) for every item, nothing else passed along
RECURSIVE AddMap(_, _, _)
AddMap(s, d, i) ==
    IF i > Len(d) THEN [s |-> s, ret |-> <<>>, dev |-> FALSE, ok |-> TRUE]
    ELSE LET a == AddOne(s, d[i].o, N(d[i].k), NoName, NoName, 0)
             r == AddMap(a.s, d, i + 1)
         IN [s |-> r.s, ret |-> <<[k |-> d[i].k, v |-> a.ret]>> \o r.ret, dev |-> FALSE, ok |-> a.ok /\ r.ok]

\* the scenes offered to add_geometry(Scene): built by the same add_geometry model
Op(o, gn, nn, p, x) == [o |-> o, gn |-> gn, nn |-> nn, p |-> p, x |-> x]
RecipeOps(k) == CASE k = 1 -> <<Op("box", NoName, NoName, NoName, 0)>>
                  [] k = 2 -> <<Op("tet", NoName, N("n"), NoName, 2), Op("cloud", NoName, NoName, N("n"), 1)>>
                  [] k = 3 -> <<>>
                  [] k = 4 -> <<Op("box2", N("a"), NoName, NoName, 1), Op("box", NoName, NoName, N("a"), 3)>>
RECURSIVE RunRecipe(_, _, _)
RunRecipe(s, ops, i) == IF i > Len(ops) THEN s
                        ELSE RunRecipe(AddOne(s, ops[i].o, ops[i].gn, ops[i].nn, ops[i].p, ops[i].x).s, ops, i + 1)
Other(k) == RunRecipe(Empty, RecipeOps(k), 1)

\* Scene.add_geometry(Scene t):  concat = append_scenes([self, t], common = [base]) ; geometry and
\* graph.transforms of self are replaced by those of concat
RECURSIVE MergeGeo(_, _, _, _)
MergeGeo(acc, m, tg, i) ==
    IF i > Len(tg) THEN [geo |-> acc, m |-> m]
    ELSE LET nm == Unique(tg[i].n, {acc[j].n : j \in DOMAIN acc})
         IN MergeGeo(Append(acc, [n |-> nm, o |-> tg[i].o]), Put(m, tg[i].n, nm), tg, i + 1)
AddScene(s, t) ==
    LET consumed == DOMAIN s.par \cup {s.par[v] : v \in DOMAIN s.par}     \* nodes on self's edge list
        Remap(v) == IF ~MutSceneNoRemap /\ v # World /\ v \in consumed THEN [v EXCEPT !.r = s.rnd + 1] ELSE v
        mg == MergeGeo(s.geo, EmptyFn, t.geo, 1)
        TE == {[v |-> Remap(w), u |-> Remap(t.par[w]), x |-> t.off[w],
                g |-> IF w \in DOMAIN t.ng THEN (IF t.ng[w] \in DOMAIN mg.m THEN mg.m[t.ng[w]] ELSE t.ng[w]) ELSE NoName]
               : w \in DOMAIN t.par}
        E(v) == CHOOSE e \in TE : e.v = v
        TV == {e.v : e \in TE}
        pdom == DOMAIN s.par \cup TV
        par2 == [v \in pdom |-> IF v \in TV THEN E(v).u ELSE s.par[v]]
        off2 == [v \in pdom |-> IF v \in TV THEN E(v).x ELSE s.off[v]]
        gdom == {v \in DOMAIN s.par : v \in DOMAIN s.ng} \cup {v \in TV : E(v).g # NoName}
    IN [geo |-> mg.geo,
        nodes |-> pdom \cup {par2[v] : v \in pdom},
        par |-> par2, off |-> off2,
        ng |-> [v \in gdom |-> IF v \in TV THEN E(v).g ELSE s.ng[v]],
        rnd |-> s.rnd + 1]

\* Scene.delete_geometry(S): graph.remove_geometries(S) then pop the names
Delete(s, S) ==
    [s EXCEPT !.geo = SelectSeq(@, LAMBDA e : e.n \notin S),
              !.ng = IF MutDeleteKeepsRefs THEN @ ELSE Drop(@, {v \in DOMAIN @ : @[v] \in S})]
\* EnforcedForest.remove_node(v): children lose their parent reference, every incident edge goes
RemoveNode(s, v) ==
    LET gone == {w \in DOMAIN s.par : w = v \/ s.par[w] = v}
    IN [s EXCEPT !.nodes = @ \ {v}, !.par = Drop(@, gone), !.off = Drop(@, gone), !.ng = Drop(@, {v})]

\* --------------------------------------------------- property-level reads
RefNG(s) == DOMAIN s.ng                                          \* graph.nodes_geometry
RefGN(s) == [g \in {s.ng[v] : v \in DOMAIN s.ng} |-> {v \in DOMAIN s.ng : s.ng[v] = g}]   \* graph.geometry_nodes
Hashed(s, L) == {v \in L : v \in DOMAIN s.ng /\ s.ng[v] \in GeoNames(s) /\ HashClass(GeoObj(s, s.ng[v])) # 0}
DupOver(s, L) == LET I == Hashed(s, L)
                     cls(v) == HashClass(GeoObj(s, s.ng[v]))
                 IN {{w \in I : cls(w) = cls(v)} : v \in I}
RefDup(s) == DupOver(s, RefNG(s))                                \* scene.duplicate_nodes
Detached(s) == \E v \in DOMAIN s.ng : ~Attached(s, v)
\* scene.subscene(v): the nodes below v, placed relative to v, with the geometries they instance
RefSub(s, v) ==
    LET below == Desc(s, v) \ {v}
    IN [nodes |-> IF below = {} THEN {} ELSE Desc(s, v),
        inst  |-> {[n |-> d, rel |-> WorldOff(s, d) - WorldOff(s, v),
                    g |-> IF d \in DOMAIN s.ng THEN s.ng[d] ELSE NoName] : d \in below},
        geos  |-> {s.ng[d] : d \in {d \in below : d \in DOMAIN s.ng}} \cap GeoNames(s)]
\* the same, the way the code builds it: edge list filtered by "leaves a successor", graph rebuilt with base v
ImplSub(s, v) ==
    LET succ == Desc(s, v)
        E == {w \in DOMAIN s.par : IF MutSubsceneEdgeTo THEN w \in succ ELSE s.par[w] \in succ}
        nodes == E \cup {s.par[w] : w \in E}
        RECURSIVE Rel(_, _)
        Rel(d, k) == IF d = v \/ k = 0 \/ d \notin E THEN 0 ELSE s.off[d] + Rel(s.par[d], k - 1)
    IN [nodes |-> nodes,
        inst  |-> {[n |-> d, rel |-> Rel(d, Cardinality(s.nodes) + 1),
                    g |-> IF d \in DOMAIN s.ng THEN s.ng[d] ELSE NoName] : d \in E},
        geos  |-> {s.ng[d] : d \in {d \in E : d \in DOMAIN s.ng}} \cap GeoNames(s)]

\* ------------------------------------------------------- cache machinery
Content(s) == <<s.nodes, s.par, s.off, s.ng>>                    \* what EnforcedForest.__hash__ digests
Dirty == [d |-> TRUE, c |-> <<>>]
HashNow == IF hm.d THEN Content(st) ELSE hm.c                    \* memo unless dirty
Memo(h) == [d |-> FALSE, c |-> h]
NoGC == [valid |-> FALSE, id |-> <<>>, hasN |-> FALSE, ngl |-> {}, hasG |-> FALSE, gnl |-> EmptyFn]
NoSC == [valid |-> FALSE, id |-> <<>>, hasD |-> FALSE, dup |-> {}, raise |-> FALSE, hasB |-> FALSE, bnone |-> FALSE]
\* Cache.verify(): dump everything when the id moved
GCVerified(h) == IF gc.valid /\ gc.id = h THEN gc ELSE [NoGC EXCEPT !.valid = TRUE, !.id = h]
SceneKey(h) == <<IF MutSceneKeyNoGraph THEN <<>> ELSE h, [i \in DOMAIN st.geo |-> st.geo[i].o]>>
SCVerified(k) == IF sc.valid /\ sc.id = k THEN sc ELSE [NoSC EXCEPT !.valid = TRUE, !.id = k]

Log(rec) == hist' = Append(hist, IF Emitting THEN rec ELSE 0)
Rs(S) == {Render(v) : v \in S}
StJ(s) == [geo |-> [i \in DOMAIN s.geo |-> [n |-> Render(s.geo[i].n), o |-> s.geo[i].o]],
           nodes |-> Rs(s.nodes),
           par |-> {[v |-> Render(v), u |-> Render(s.par[v]), x |-> s.off[v]] : v \in DOMAIN s.par},
           ng |-> {[v |-> Render(v), g |-> Render(s.ng[v])] : v \in DOMAIN s.ng}]
SubJ(r) == [nodes |-> Rs(r.nodes),
            inst |-> {[n |-> Render(e.n), rel |-> e.rel, g |-> Render(e.g)] : e \in r.inst},
            geos |-> Rs(r.geos)]
GNJ(f) == {[g |-> Render(g), ns |-> Rs(f[g])] : g \in DOMAIN f}
DupJ(D) == {Rs(G) : G \in D}

\* ---------------------------------------------------------------- actions
Init == st = Empty /\ hm = Dirty /\ gc = NoGC /\ sc = NoSC /\ hist = <<>>
        /\ last = [op |-> "init"]

Xnow == Len(hist) + 1                                             \* the translation used by this step
Parents == {NoName} \cup (CASE ParentMode = "none" -> {}
                            [] ParentMode = "inst" -> DOMAIN st.ng
                            [] OTHER -> st.nodes \ {World})
NameOpt(S) == {NoName} \cup {N(b) : b \in S}

\* every graph mutation goes through add_edge / remove_node, which reset the hash memo
Mutated(s2) == st' = s2 /\ hm' = Dirty /\ UNCHANGED <<gc, sc>>

\* kx: the caller passes the transform the named node already has (add_edge then takes its
\* "nothing changed" early return and SceneGraph.update alone attaches the geometry)
KeepX(v, p) == v \in DOMAIN st.par /\ st.par[v] = (IF p = NoName THEN World ELSE p)
Add(o, gn, nn, p, kx) ==
    LET x == IF kx THEN st.off[nn] ELSE Xnow
        a == AddOne(st, o, gn, nn, p, x)
    IN /\ "add" \in Ops /\ (kx => KeepX(nn, p)) /\ a.ok
       /\ Mutated(a.s)
       /\ last' = [op |-> "add", objs |-> <<o>>, rets |-> <<a.ret>>, nn |-> nn]
       /\ Log([op |-> "add", o |-> o, gn |-> Render(gn), nn |-> Render(nn), p |-> Render(p), x |-> x,
               ret |-> Render(a.ret), st |-> StJ(a.s), reaim |-> a.dev])

AddList(os, gn, nn, p) ==
    LET a == AddSeq(st, os, gn, nn, p, Xnow, 1)
    IN /\ "addlist" \in Ops /\ a.ok
       /\ Mutated(a.s)
       /\ last' = [op |-> "add", objs |-> os, rets |-> a.ret, nn |-> nn]
       /\ Log([op |-> "addlist", os |-> os, gn |-> Render(gn), nn |-> Render(nn), p |-> Render(p), x |-> Xnow,
               ret |-> [k \in DOMAIN a.ret |-> Render(a.ret[k])], st |-> StJ(a.s), reaim |-> a.dev])

AddDict(d) ==
    LET a == AddMap(st, d, 1)
    IN /\ "adddict" \in Ops /\ a.ok
       /\ Mutated(a.s)
       /\ last' = [op |-> "add", objs |-> [k \in DOMAIN d |-> d[k].o],
                   rets |-> [k \in DOMAIN a.ret |-> a.ret[k].v], nn |-> NoName]
       /\ Log([op |-> "adddict", d |-> d, ret |-> [k \in DOMAIN a.ret |-> [k |-> a.ret[k].k, v |-> Render(a.ret[k].v)]],
               st |-> StJ(a.s)])

AddSceneAct(k) ==
    LET s2 == AddScene(st, Other(k))
    IN /\ "addscene" \in Ops
       /\ Mutated(s2)
       /\ last' = [op |-> "addscene"]
       /\ Log([op |-> "addscene", k |-> k, st |-> StJ(s2)])

\* delete_geometry -> remove_geometries pops the memoised nodes_geometry and resets the hash memo
DeleteAct(S) ==
    LET s2 == Delete(st, S)
    IN /\ "delete" \in Ops
       /\ st' = s2
       /\ hm' = IF MutForgetDirty \/ MutDeleteKeepsRefs THEN hm ELSE Dirty
       /\ gc' = IF MutDeleteKeepsRefs THEN gc ELSE [gc EXCEPT !.hasN = FALSE, !.ngl = {}]
       /\ UNCHANGED sc
       /\ last' = [op |-> "delete", names |-> S]
       /\ Log([op |-> "delete", names |-> Rs(S), st |-> StJ(s2)])

\* scene.graph.update(v, frame_from = p, matrix = T(x), geometry = g): one more instance of g
Instance(v, g, p, kx) ==
    LET u == IF p = NoName THEN World ELSE p
        x == IF kx THEN st.off[v] ELSE Xnow
        s2 == GUpdate(st, u, v, x, g)
    IN /\ "instance" \in Ops /\ (kx => KeepX(v, p)) /\ UpdOK(st, u, v)
       /\ Mutated(s2)
       /\ last' = [op |-> "instance"]
       /\ Log([op |-> "instance", v |-> Render(v), g |-> Render(g), p |-> Render(p), x |-> x, st |-> StJ(s2)])

RemoveNodeAct(v) ==
    LET s2 == RemoveNode(st, v)
    IN /\ "rmnode" \in Ops
       /\ Mutated(s2)
       /\ last' = [op |-> "rmnode"]
       /\ Log([op |-> "rmnode", v |-> Render(v), st |-> StJ(s2)])

\* graph.nodes_geometry and graph.geometry_nodes (both cache_decorator properties of SceneGraph)
ReadGraph ==
    LET h == HashNow
        g1 == GCVerified(h)
        ngl == IF g1.hasN THEN g1.ngl ELSE RefNG(st)
        gnl == IF g1.hasG THEN g1.gnl ELSE RefGN(st)
    IN /\ "readgraph" \in Ops
       /\ hm' = Memo(h)
       /\ gc' = [g1 EXCEPT !.hasN = TRUE, !.ngl = ngl, !.hasG = TRUE, !.gnl = gnl]
       /\ UNCHANGED <<st, sc>>
       /\ last' = [op |-> "readgraph", ngl |-> ngl, gnl |-> gnl]
       /\ Log([op |-> "readgraph", ngl |-> Rs(RefNG(st)), gnl |-> GNJ(RefGN(st))])

\* scene.duplicate_nodes, scene.bounds is None, scene.is_empty, len(scene.geometry)
ReadScene ==
    LET h == HashNow
        k == SceneKey(h)
        s1 == SCVerified(k)
        g1 == GCVerified(h)
        L == IF g1.hasN THEN g1.ngl ELSE RefNG(st)                  \* duplicate_nodes walks graph.nodes_geometry
        raise == AsBuiltDupNeedsPath /\ \E v \in L : ~Attached(st, v)
        dup == IF s1.hasD THEN s1.dup ELSE IF raise THEN {} ELSE DupOver(st, L)
        rz == IF s1.hasD THEN FALSE ELSE raise
        bnone == IF s1.hasB THEN s1.bnone ELSE (L \cap DOMAIN st.ng) = {}
    IN /\ "readscene" \in Ops
       /\ hm' = Memo(h)
       /\ gc' = [g1 EXCEPT !.hasN = TRUE, !.ngl = L]
       /\ sc' = IF rz THEN s1                                        \* an exception stores nothing
                ELSE [s1 EXCEPT !.hasD = TRUE, !.dup = dup, !.hasB = TRUE, !.bnone = bnone]
       /\ UNCHANGED st
       /\ last' = [op |-> "readscene", dup |-> dup, raise |-> rz, bnone |-> bnone]
       /\ Log([op |-> "readscene", dup |-> DupJ(RefDup(st)), asbuilt_raises |-> Detached(st),
               bounds_free |-> Detached(st), bnone |-> RefNG(st) = {},
               empty |-> Len(st.geo) = 0, ngeo |-> Len(st.geo)])

Subscene(v) ==
    /\ "subscene" \in Ops
    /\ UNCHANGED <<st, hm, gc, sc>>
    /\ last' = [op |-> "subscene", v |-> v]
    /\ Log([op |-> "subscene", v |-> Render(v), sub |-> SubJ(RefSub(st, v)),
            rootg |-> IF v \in DOMAIN st.ng THEN Render(st.ng[v]) ELSE ""])

\* scene.copy() / scene.strip_visuals(): the registry (of the original) is unchanged, the copy's equals it
Copy ==
    /\ "copy" \in Ops /\ UNCHANGED <<st, hm, gc, sc>> /\ last' = [op |-> "copy"] /\ Log([op |-> "copy"])
Strip ==
    /\ "strip" \in Ops /\ UNCHANGED <<st, hm, gc, sc>> /\ last' = [op |-> "strip"] /\ Log([op |-> "strip"])

Pairs(S) == {T \in SUBSET S : Cardinality(T) = 2}
Next ==
    /\ Len(hist) < MaxDepth
    /\ \/ \E o \in Objs, gn \in NameOpt(GNames), nn \in NameOpt(NNames), p \in Parents, kx \in BOOLEAN : Add(o, gn, nn, p, kx)
       \/ \E os \in Lists, gn \in NameOpt(GNames), nn \in NameOpt(NNames) : AddList(os, gn, nn, NoName)
       \/ \E d \in Dicts : AddDict(d)
       \/ \E k \in Recipes : AddSceneAct(k)
       \/ \E n \in GeoNames(st) : DeleteAct({n})
       \/ \E T \in Pairs(GeoNames(st)) : "delete2" \in Ops /\ DeleteAct(T)
       \/ \E v \in {N(b) : b \in NNames} \cup (st.nodes \ {World}), g \in GeoNames(st),
             p \in (IF ParentMode = "all" THEN Parents ELSE {NoName}), kx \in BOOLEAN : Instance(v, g, p, kx)
       \/ \E v \in st.nodes \ {World} : RemoveNodeAct(v)
       \/ ReadGraph
       \/ ReadScene
       \/ \E v \in st.nodes : Subscene(v)
       \/ Copy
       \/ Strip
Spec == Init /\ [][Next]_vars

\* ------------------------------------------------------------- properties
\* the registry is referentially closed at every moment
RefIntegrity ==
    /\ DOMAIN st.ng \subseteq st.nodes
    /\ \A v \in DOMAIN st.ng : st.ng[v] \in GeoNames(st)
    /\ DOMAIN st.par \subseteq st.nodes /\ \A v \in DOMAIN st.par : st.par[v] \in st.nodes
    /\ DOMAIN st.off = DOMAIN st.par
    /\ Acyclic(st)
    /\ \A i, j \in DOMAIN st.geo : i # j => st.geo[i].n # st.geo[j].n
\* (4) geometry_nodes is the inverse image of the node -> geometry attribute (sanity of the reference)
InverseImage ==
    /\ \A g \in DOMAIN RefGN(st) : RefGN(st)[g] # {} /\ \A v \in RefGN(st)[g] : st.ng[v] = g
    /\ \A v \in DOMAIN st.ng : v \in RefGN(st)[st.ng[v]]
\* (5) what subscene builds from the edge list is "the nodes below, placed relative to it"
SubsceneCorrect == \A v \in st.nodes : ImplSub(st, v) = RefSub(st, v)

\* The clauses about one operation are action properties: TLC evaluates them on every transition
\* (st = before, st' = after, last' = what the operation returned).
\* (1) every returned name is a node whose geometry attribute names the entry holding what was added
\*     (a list under one explicit node name leaves only its last element on that node)
AddReturnsA ==
    last'.op = "add" =>
        \A k \in DOMAIN last'.rets : (last'.nn = NoName \/ k = Len(last'.rets)) =>
            /\ last'.rets[k] \in st'.nodes /\ last'.rets[k] \in DOMAIN st'.ng
            /\ st'.ng[last'.rets[k]] \in GeoNames(st')
            /\ GeoObj(st', st'.ng[last'.rets[k]]) = last'.objs[k]
\* (2) adding never overwrites an entry of scene.geometry and never re-aims or moves a node,
\*     other than the node the caller named explicitly
NoOverwriteA ==
    last'.op = "add" =>
        /\ Len(st'.geo) = Len(st.geo) + Len(last'.objs)
        /\ \A i \in DOMAIN st.geo : st'.geo[i] = st.geo[i]
        /\ \A v \in DOMAIN st.ng \ {last'.nn} : v \in DOMAIN st'.ng /\ st'.ng[v] = st.ng[v]
        /\ \A v \in DOMAIN st.par \ {last'.nn} : v \in DOMAIN st'.par /\ st'.par[v] = st.par[v] /\ st'.off[v] = st.off[v]
\* ... a scene too, for everything that hangs on an edge (see the accommodation in the header)
NoOverwriteSceneA ==
    last'.op = "addscene" =>
        /\ \A i \in DOMAIN st.geo : st'.geo[i] = st.geo[i]
        /\ \A v \in DOMAIN st.par : v \in DOMAIN st'.par /\ st'.par[v] = st.par[v] /\ st'.off[v] = st.off[v]
        /\ \A v \in DOMAIN st.ng \cap DOMAIN st.par : v \in DOMAIN st'.ng /\ st'.ng[v] = st.ng[v]
\* (3) delete_geometry removes the entry and every reference, and nothing else
DeleteCleanA ==
    last'.op = "delete" =>
        /\ GeoNames(st') = GeoNames(st) \ last'.names
        /\ st'.geo = SelectSeq(st.geo, LAMBDA e : e.n \notin last'.names)
        /\ \A v \in DOMAIN st'.ng : st'.ng[v] \notin last'.names
        /\ \A v \in DOMAIN st.ng : st.ng[v] \notin last'.names => (v \in DOMAIN st'.ng /\ st'.ng[v] = st.ng[v])
        /\ st'.nodes = st.nodes /\ st'.par = st.par /\ st'.off = st.off
\* (3)/(4) the memoised listings are the current node attributes and their inverse image
ListingFreshA ==
    last'.op = "readgraph" => last'.ngl = RefNG(st') /\ last'.gnl = RefGN(st')
\* (5) duplicate_nodes is the grouping of the instance nodes by content hash, for every history
DupCorrectA ==
    last'.op = "readscene" => ~last'.raise /\ last'.dup = RefDup(st')
\* (6) bounds is None exactly when nothing is instanced (where every instance can be placed)
BoundsAgreeA ==
    (last'.op = "readscene" /\ ~last'.raise /\ ~Detached(st')) => last'.bnone = (RefNG(st') = {})
AddReturns == [][AddReturnsA]_vars
NoOverwrite == [][NoOverwriteA]_vars
NoOverwriteScene == [][NoOverwriteSceneA]_vars
DeleteClean == [][DeleteCleanA]_vars
ListingFresh == [][ListingFreshA]_vars
DupCorrect == [][DupCorrectA]_vars
BoundsAgree == [][BoundsAgreeA]_vars

\* --------------------------------------------------------------- emission
FinJ == [ngl |-> Rs(RefNG(st)), gnl |-> GNJ(RefGN(st)), dup |-> DupJ(RefDup(st)),
         asbuilt_raises |-> Detached(st), bounds_free |-> Detached(st), bnone |-> RefNG(st) = {},
         empty |-> Len(st.geo) = 0, ngeo |-> Len(st.geo),
         subs |-> {[v |-> Render(v), sub |-> SubJ(RefSub(st, v)),
                    rootg |-> IF v \in DOMAIN st.ng THEN Render(st.ng[v]) ELSE ""] : v \in st.nodes}]
Emit == PrintT(ToJson([h |-> hist, fin |-> FinJ]))
EmitAll == Emit
EmitLeaf == (Len(hist) = MaxDepth) => Emit
\* the offered scenes, for the harness to build them the same way
EmitRecipes == (Len(hist) = 0) => PrintT(ToJson([k \in 1..4 |->
                   [k |-> k,
                    ops |-> [i \in DOMAIN RecipeOps(k) |->
                               [o |-> RecipeOps(k)[i].o, gn |-> Render(RecipeOps(k)[i].gn), nn |-> Render(RecipeOps(k)[i].nn),
                                p |-> Render(RecipeOps(k)[i].p), x |-> RecipeOps(k)[i].x]],
                    st |-> StJ(Other(k))]]))
EmitFacts == (Len(hist) = 0) => PrintT(ToJson([o \in {"box", "box2", "tet", "path", "cloud"} |->
                              [meta |-> Meta(o), file |-> File(o), cls |-> HashClass(o)]]))

\* ------------------------------------------------ constants for the configs
Objs1 == {"box"}
Objs2 == {"box", "tet"}
Objs3 == {"box", "box2", "cloud"}
Objs5 == {"box", "box2", "tet", "path", "cloud"}
Names0 == {}
NamesA == {"a"}
NamesN == {"n"}
NamesAN == {"a", "n"}
Lists0 == {}
Lists1 == {<<"box", "tet">>}
Lists2 == {<<"box", "tet">>, <<"box2", "box2", "cloud">>}
Dicts0 == {}
Dicts1 == {<<[k |-> "a", o |-> "box"], [k |-> "b", o |-> "path"]>>}
Rec0 == {}
Rec13 == {1, 3}
Rec123 == {1, 2, 3}
Rec1234 == {1, 2, 3, 4}
OpsMut == {"add", "addlist", "adddict", "addscene", "delete", "instance", "rmnode", "readgraph", "readscene"}
OpsAll == OpsMut \cup {"delete2", "subscene", "copy", "strip"}
OpsCore == {"add", "delete", "instance", "rmnode", "readgraph", "readscene"}
=============================================================================
