-------------------------- MODULE TraceSceneGraph --------------------------
(***************************************************************************)
(* Code -> spec direction for property C09: every SceneGraph.get recorded  *)
(* while the repository's own tests (or any driver) run is logged with the *)
(* projected abstract state of the graph at that moment - the parent map   *)
(* and one opaque token per edge matrix.  For each event this module says  *)
(* whether the two frames are connected and, if so, WHICH term the answer  *)
(* must equal: the product, in order, of the inverted edges from `a` up to *)
(* the lowest common ancestor and then the forward edges down to `b`       *)
(* (RefGet of SceneGraph.tla over symbolic matrices).  The harness only    *)
(* evaluates that term with numpy and compares it with the recorded answer.*)
(***************************************************************************)
EXTENDS Integers, Sequences, FiniteSets, TLC, Json

Cases == ndJsonDeserialize("cases.ndjson")
VARIABLE i

\* c.par is the logged parent map as a record  child |-> parent  (plus the dummy entry "zz_" |-> "-", so that
\* an empty forest is still a record); record lookup keeps long chains (1000+ frames) affordable
Par(c, n) == IF n \in DOMAIN c.par THEN c.par[n] ELSE "-"
NPar(c) == Cardinality(DOMAIN c.par)
RECURSIVE Up(_, _, _)
Up(c, n, k) == IF n = "-" \/ k = 0 THEN <<>> ELSE <<n>> \o Up(c, Par(c, n), k - 1)
Chain(c, n) == Up(c, n, NPar(c) + 2)                         \* n, parent(n), ..., root
InSeq(s, e) == \E k \in 1..Len(s) : s[k] = e
Pos(s, e) == CHOOSE k \in 1..Len(s) : s[k] = e
Rev(s) == [k \in 1..Len(s) |-> s[Len(s) + 1 - k]]
\* index of the first element of ua that also lies on ub (0 when there is none): the lowest common ancestor
RECURSIVE FirstIn(_, _, _)
FirstIn(ua, ub, k) == IF k > Len(ua) THEN 0 ELSE IF InSeq(ub, ua[k]) THEN k ELSE FirstIn(ua, ub, k + 1)

\* [conn |-> connected?, term |-> sequence of [n |-> child node whose incoming edge is used,
\*                                            inv |-> traversed child -> parent]]
Judge(c) ==
    LET ua == Chain(c, c.a)  ub == Chain(c, c.b)
        k == FirstIn(ua, ub, 1)
    IN IF k = 0 THEN [conn |-> FALSE, term |-> <<>>]
       ELSE LET lca == ua[k]
                up == SubSeq(ua, 1, k - 1)                       \* a ... below lca: inverted edges, a's first
                down == Rev(SubSeq(ub, 1, Pos(ub, lca) - 1))     \* below lca ... b: forward edges
            IN [conn |-> TRUE,
                term |-> [j \in 1..Len(up) |-> [n |-> up[j], inv |-> TRUE]] \o
                         [j \in 1..Len(down) |-> [n |-> down[j], inv |-> FALSE]]]

Init == i = 1
Next == i < Len(Cases) /\ i' = i + 1
\* sanity of the logged projection itself: the walks from the two frames of the query end at a root within
\* the number of entries.  A parent map with a cycle on them is not a forest (outside the property; the
\* harness decides what a cyclic log means for its source) - the walks are capped, so Judge still terminates.
Acyclic(c) == Len(Chain(c, c.a)) <= NPar(c) + 1 /\ Len(Chain(c, c.b)) <= NPar(c) + 1
Tell == LET c == Cases[i]  j == Judge(c) IN
        PrintT(ToJson([id |-> c.id, conn |-> j.conn, term |-> j.term, cyc |-> ~Acyclic(c)]))
=============================================================================
