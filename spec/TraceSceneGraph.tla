-------------------------- MODULE TraceSceneGraph --------------------------
(***************************************************************************)
(* Code -> spec direction for property C09: every SceneGraph.get recorded  *)
(* while the repository's own tests (or any driver) run is logged with the *)
(* projected abstract state of the graph at that moment - the parent map   *)
(* and one opaque token per edge matrix.  For each event this module says  *)
(* whether the two frames are connected and, if so, WHICH term the answer  *)
(* must equal: the product, in order, of the inverted edges from `a` up to *)
(* the lowest common ancestor and then the forward edges down to `b`       *)
(* (RefGet of SceneGraph.tla over symbolic matrices).  The harness only    *)
(* evaluates that term with numpy and compares it with the recorded answer.*)
(***************************************************************************)
EXTENDS Integers, Sequences, FiniteSets, TLC, Json

Cases == ndJsonDeserialize("cases.ndjson")
VARIABLE i

Par(c, n) == IF \E k \in 1..Len(c.parents) : c.parents[k][1] = n
             THEN c.parents[CHOOSE k \in 1..Len(c.parents) : c.parents[k][1] = n][2] ELSE "-"
RECURSIVE Up(_, _, _)
Up(c, n, k) == IF n = "-" \/ k = 0 THEN <<>> ELSE <<n>> \o Up(c, Par(c, n), k - 1)
Chain(c, n) == Up(c, n, Len(c.parents) + 2)                  \* n, parent(n), ..., root
InSeq(s, e) == \E k \in 1..Len(s) : s[k] = e
Pos(s, e) == CHOOSE k \in 1..Len(s) : s[k] = e
Rev(s) == [k \in 1..Len(s) |-> s[Len(s) + 1 - k]]

Connected(c) == \E k \in 1..Len(Chain(c, c.a)) : InSeq(Chain(c, c.b), Chain(c, c.a)[k])
\* term: sequence of [n |-> child node whose incoming edge is used, inv |-> traversed child -> parent]
Term(c) ==
    LET ua == Chain(c, c.a)  ub == Chain(c, c.b)
        lca == ua[CHOOSE k \in 1..Len(ua) : InSeq(ub, ua[k]) /\ \A j \in 1..(k - 1) : ~InSeq(ub, ua[j])]
        up == SubSeq(ua, 1, Pos(ua, lca) - 1)                \* a ... below lca: inverted edges, a's first
        down == Rev(SubSeq(ub, 1, Pos(ub, lca) - 1))         \* below lca ... b: forward edges
    IN [k \in 1..Len(up) |-> [n |-> up[k], inv |-> TRUE]] \o [k \in 1..Len(down) |-> [n |-> down[k], inv |-> FALSE]]

Init == i = 1
Next == i < Len(Cases) /\ i' = i + 1
Tell == LET c == Cases[i] IN
        PrintT(ToJson([id |-> c.id, conn |-> Connected(c), term |-> IF Connected(c) THEN Term(c) ELSE <<>>]))
\* forest sanity of the logged projection itself (a parent map is acyclic by construction of the walk)
Acyclic == LET c == Cases[i] IN \A k \in 1..Len(c.parents) : Len(Chain(c, c.parents[k][1])) <= Len(c.parents) + 1
=============================================================================
