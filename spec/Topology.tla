----------------------------- MODULE Topology -----------------------------
(***************************************************************************)
(* Reference semantics of the topological queries of a triangle mesh       *)
(* (property C05) written as direct counting on the face array, and a      *)
(* batch validator of recorded observations of the real code.              *)
(*                                                                         *)
(* A mesh is  F : a sequence of faces, each a triple of 0-based vertex     *)
(* indices (repeats inside a face, repeated faces, any pattern allowed)    *)
(* and  nv : the number of vertices (indices 0..nv-1, some possibly        *)
(* unreferenced).  Face ids and vertex ids are 0-based as in numpy;        *)
(* TLA+ sequences are 1-based, hence the +1 when indexing.                 *)
(*                                                                         *)
(* Conventions taken from the docstrings (where code and docs agree):      *)
(*  - edges are the directed pairs (v0,v1),(v1,v2),(v2,v0) of every face,  *)
(*    stacked face after face; edge row k belongs to face k div 3;         *)
(*  - two faces are adjacent through a sorted edge iff that edge occurs    *)
(*    exactly twice in the edge list and the two occurrences lie in two    *)
(*    different faces; an edge occurring three or more times pairs nobody; *)
(*  - watertight  = every sorted edge occurs exactly twice;                *)
(*  - winding     = the two occurrences of every such edge are reversed;   *)
(*  - unshared vertex of a face w.r.t. an edge = the single corner that is *)
(*    not an end of the edge, -1 when there is not exactly one;            *)
(*  - Euler number = referenced vertices - unique edges + faces.           *)
(* Left unconstrained (direct counting is ambiguous on a degenerate face): *)
(*  whether a vertex is its own neighbour through the self edge of a face  *)
(*  [a,a,b]; whether unreferenced vertices count as bodies; whether a face *)
(*  [a,a,b] is counted once (per face) or twice (per corner) at a.  The    *)
(*  last one is a parameter of the reference, not a licence per element:   *)
(*  "incident faces and degree" are one incidence relation, so the degree  *)
(*  and both incident-face lists must follow ONE of the two conventions.   *)
(* Options of the anchored functions (documented parameters):              *)
(*  connected_components(min_len, nodes): components of the graph induced  *)
(*  on `nodes` (default: the ends of the edges) with at least min_len      *)
(*  nodes, the same for every engine (scipy, networkx, None = automatic);  *)
(*  split(only_watertight=True): parts are whole face components; a part   *)
(*  returned unrepaired is watertight; every watertight component of four  *)
(*  or more faces is returned; the answer does not depend on the engine    *)
(*  (hole filling and the fate of smaller components stay unconstrained).  *)
(*  An empty face array: watertightness / winding are left unconstrained.  *)
(***************************************************************************)
\* NB clause names (prefix + suffix) stay below 50 characters: TLC wraps PrintT output at 80 columns
\* and the harness reads one REJECT tuple per line.
EXTENDS Integers, Sequences, FiniteSets, TLC, Json

Cases == ndJsonDeserialize("cases.ndjson")
VARIABLE i

Range(s) == {s[k] : k \in 1..Len(s)}
Min2(a, b) == IF a <= b THEN a ELSE b
Max2(a, b) == IF a <= b THEN b ELSE a
Sorted(e) == <<Min2(e[1], e[2]), Max2(e[1], e[2])>>
Rev(e) == <<e[2], e[1]>>
Distinct(s) == Cardinality(Range(s)) = Len(s)
AsSets(ss) == {Range(ss[k]) : k \in 1..Len(ss)}

\* ------------------------------------------------------------------ edges
FaceIds(F) == 0..(Len(F) - 1)
EdgeOf(F, k) == LET f == (k - 1) \div 3  j == (k - 1) % 3
                IN <<F[f + 1][j + 1], F[f + 1][((j + 1) % 3) + 1]>>
Edges(F) == [k \in 1..(3 * Len(F)) |-> EdgeOf(F, k)]                 \* directed, stacked per face
EdgesFace(F) == [k \in 1..(3 * Len(F)) |-> (k - 1) \div 3]           \* owning face of every edge row
EdgesSorted(F) == [k \in 1..(3 * Len(F)) |-> Sorted(EdgeOf(F, k))]
\* S below is always EdgesSorted(F), E is Edges(F), U is the set of unique (sorted) edges
Occ(S, e) == {k \in 1..Len(S) : S[k] = e}                            \* rows where sorted edge e occurs
Count(S, e) == Cardinality(Occ(S, e))
FaceOfRow(k) == (k - 1) \div 3
FaceEdges(S, f) == {S[3 * f + 1], S[3 * f + 2], S[3 * f + 3]}

\* -------------------------------------------------------------- adjacency
\* one row per sorted edge occurring exactly twice, in two different faces: <<{f, g}, edge>>
AdjRows(S) == LET twice == {e \in Range(S) : Count(S, e) = 2}
              IN {r \in {<<{FaceOfRow(k) : k \in Occ(S, e)}, e>> : e \in twice} : Cardinality(r[1]) = 2}
SymPairs(R) == UNION {{p \in r[1] \X r[1] : p[1] # p[2]} : r \in R}
Unshared(face, e) == LET pos == {j \in 1..3 : face[j] \notin {e[1], e[2]}}
                     IN IF Cardinality(pos) = 1 THEN face[CHOOSE j \in pos : TRUE] ELSE -1

\* ------------------------------------------------------------- components
RECURSIVE Reach(_, _)
Reach(A, Sym) == LET N == A \cup {p[2] : p \in {q \in Sym : q[1] \in A}}
                 IN IF N = A THEN A ELSE Reach(N, Sym)
Components(Nodes, Sym) == {Reach({v}, Sym) : v \in Nodes}
FaceComponents(F, S) == Components(FaceIds(F), SymPairs(AdjRows(S)))              \* split
VertexSym(U) == U \cup {Rev(e) : e \in U}
VertexComponents(Nodes, U) == Components(Nodes, VertexSym(U))                     \* body count

\* ---------------------------------------------------------------- vertices
Referenced(F) == UNION {Range(F[k]) : k \in 1..Len(F)}
Incident(F, v) == {f \in FaceIds(F) : v \in Range(F[f + 1])}                      \* faces containing v
Occur(F, v) == Cardinality({p \in (1..Len(F)) \X (1..3) : F[p[1]][p[2]] = v})    \* corners equal to v
Neighbours(U, v) == {e[2] : e \in {x \in U : x[1] = v}} \cup {e[1] : e \in {x \in U : x[2] = v}}

\* ---------------------------------------------------------------- scalars
Euler(F, U) == Cardinality(Referenced(F)) - Cardinality(U) + Len(F)
Watertight(S) == \A e \in Range(S) : Count(S, e) = 2
WindingConsistent(E, S) ==
    \A e \in Range(S) : LET o == Occ(S, e) IN
        Cardinality(o) = 2 => \A a, b \in o : a # b => E[a] = Rev(E[b])

NonDegenerate(F) == \A k \in 1..Len(F) : Cardinality(Range(F[k])) = 3
\* closed combinatorial 2-manifold: every edge in exactly two corners of the edge list, every
\* vertex referenced, and the faces around every vertex form one fan (connected through edges at v)
LinkConnected(F, S, v) ==
    LET inc == Incident(F, v)
        sym == {p \in inc \X inc : p[1] # p[2] /\
                   \E e \in FaceEdges(S, p[1]) \cap FaceEdges(S, p[2]) : v \in {e[1], e[2]}}
    IN Reach({CHOOSE f \in inc : TRUE}, sym) = inc
ClosedManifold(F, nv) ==
    LET S == EdgesSorted(F) IN
    /\ Len(F) > 0
    /\ NonDegenerate(F)
    /\ Referenced(F) = 0..(nv - 1)
    /\ Watertight(S)
    /\ \A v \in Referenced(F) : LinkConnected(F, S, v)

\* ============================================================== validator
InRange0(s, n) == \A k \in 1..Len(s) : s[k] \in 0..(n - 1)
PairsInRange0(s, n) == \A k \in 1..Len(s) : s[k][1] \in 0..(n - 1) /\ s[k][2] \in 0..(n - 1)

\* edges / sorted edges / owning face: sequences in the documented order
OkEdges(c, E, S) ==
    IF c.edges # E THEN "edges_stacked_per_face_in_01_12_20_order"
    ELSE IF c.es # S THEN "edges_sorted_is_rowwise_sorted_edges"
    ELSE IF c.ef # EdgesFace(c.faces) THEN "edges_face_is_owning_face_of_each_edge_row"
    ELSE IF c.f2e # E THEN "faces_to_edges_stacked_order"
    ELSE IF c.f2e0 # E THEN "faces_to_edges_without_index"
    ELSE IF c.f2ei # EdgesFace(c.faces) THEN "faces_to_edges_face_index"
    ELSE "ok"

\* unique edges (a set, each once), the inverse and the per-face rows (sequences)
OkUnique(c, S, U) ==
    LET eu == c.eu  inv == c.eui  fue == c.fue IN
    IF {Sorted(eu[k]) : k \in 1..Len(eu)} # U THEN "edges_unique_are_the_distinct_sorted_edges"
    ELSE IF Len(eu) # Cardinality(U) THEN "edges_unique_has_no_repeats"
    ELSE IF Len(inv) # Len(S) \/ ~InRange0(inv, Len(eu)) THEN "edges_unique_inverse_shape"
    ELSE IF \E k \in 1..Len(S) : eu[inv[k] + 1] # S[k] THEN "edges_unique_inverse_rebuilds_edges_sorted"
    ELSE IF Len(fue) # Len(c.faces) \/ \E f \in 1..Len(fue) : Len(fue[f]) # 3 \/ ~InRange0(fue[f], Len(eu))
         THEN "faces_unique_edges_shape"
    ELSE IF \E f \in 1..Len(fue) : \E j \in 1..3 : eu[fue[f][j] + 1] # S[3 * (f - 1) + j]
         THEN "faces_unique_edges_rows_follow_face_edges"
    ELSE "ok"

\* face adjacency with shared edge and unshared vertices; rows in any order
ObsRows(fa, fae) == {<<{fa[k][1], fa[k][2]}, Sorted(fae[k])>> : k \in 1..Len(fa)}
OkAdjRows(F, S, fa, fae, what) ==
    IF Len(fa) # Len(fae) THEN what \o "_edges_shape"
    ELSE IF ~PairsInRange0(fa, Len(F)) THEN what \o "_face_index_range"
    ELSE IF \E k \in 1..Len(fa) : fa[k][1] = fa[k][2] THEN what \o "_pairs_a_face_with_itself"
    ELSE IF ObsRows(fa, fae) # AdjRows(S) THEN what \o "_pairs_and_shared_edges"
    ELSE IF Len(fa) # Cardinality(AdjRows(S)) THEN what \o "_rows_repeat"
    ELSE "ok"
OkAdjacency(c, S) ==
    LET F == c.faces
        a == OkAdjRows(F, S, c.fa, c.fae, "face_adjacency")
        b == OkAdjRows(F, S, c.gfa, c.gfae, "graph_face_adjacency")
    IN
    IF a # "ok" THEN a
    ELSE IF b # "ok" THEN b
    ELSE IF Len(c.fau) # Len(c.fa) THEN "face_adjacency_unshared_shape"
    ELSE IF \E k \in 1..Len(c.fa) : \E col \in 1..2 :
              c.fau[k][col] # Unshared(F[c.fa[k][col] + 1], c.fae[k])
         THEN "face_adjacency_unshared_corner"
    ELSE IF ~PairsInRange0(c.gfam, Len(F))
            \/ {{c.gfam[k][1], c.gfam[k][2]} : k \in 1..Len(c.gfam)} # {r[1] : r \in AdjRows(S)}
            \/ Len(c.gfam) # Cardinality(AdjRows(S))
         THEN "graph_face_adjacency_of_mesh_pairs"
    ELSE "ok"

\* vertex neighbours, incident faces, degree.  A face with a repeated index is incident to that
\* vertex once per face or once per corner: one convention for the lists and the degree together.
Conventions == {"once_per_face", "once_per_corner"}
Corners(F, f, v) == Cardinality({j \in 1..3 : F[f + 1][j] = v})
Listed(row, f) == Cardinality({k \in 1..Len(row) : row[k] = f})
IncMult(F, f, v, conv) == IF conv = "once_per_face" THEN 1 ELSE Corners(F, f, v)
IncCount(F, v, conv) == IF conv = "once_per_face" THEN Cardinality(Incident(F, v)) ELSE Occur(F, v)
RowsFollow(F, nv, vf, conv) ==
    \A v \in 0..(nv - 1) : \A f \in Incident(F, v) : Listed(vf[v + 1], f) = IncMult(F, f, v, conv)
DegreeFollows(F, nv, vd, conv) == \A v \in 0..(nv - 1) : vd[v + 1] = IncCount(F, v, conv)
OkIncidence(F, nv, vf, what) ==
    IF Len(vf) # nv THEN what \o "_shape"
    ELSE IF \E v \in 0..(nv - 1) : {x \in Range(vf[v + 1]) : x # -1} # Incident(F, v)
         THEN what \o "_not_the_faces_at_vertex"
    ELSE IF {conv \in Conventions : RowsFollow(F, nv, vf, conv)} = {}
         THEN what \o "_lists_a_face_once"
    ELSE "ok"
OkVertices(c, U) ==
    LET F == c.faces  nv == c.nv
        a == OkIncidence(F, nv, c.vf, "vertex_faces")
        b == OkIncidence(F, nv, c.vfi, "vertex_face_indices") IN
    IF Len(c.vn) # nv THEN "vertex_neighbors_shape"
    ELSE IF \E v \in 0..(nv - 1) : Range(c.vn[v + 1]) \ {v} # Neighbours(U, v) \ {v}
         THEN "vertex_neighbors_are_ends_of_edges_at_vertex"
    ELSE IF \E v \in 0..(nv - 1) : v \in Range(c.vn[v + 1]) /\ <<v, v>> \notin U
         THEN "vertex_own_neighbour_without_self_edge"
    ELSE IF {Sorted(c.vag[k]) : k \in 1..Len(c.vag)} \ {<<v, v>> : v \in 0..(nv - 1)}
            # U \ {<<v, v>> : v \in 0..(nv - 1)}
         THEN "vertex_adjacency_graph_edges"
    ELSE IF \E k \in 1..Len(c.vag) : Sorted(c.vag[k]) \notin U THEN "vertex_adjacency_graph_extra_edge"
    ELSE IF a # "ok" THEN a
    ELSE IF b # "ok" THEN b
    ELSE IF Len(c.vd) # nv THEN "vertex_degree_shape"
    ELSE IF {conv \in Conventions : DegreeFollows(F, nv, c.vd, conv)} = {}
         THEN "vertex_degree_counts_faces_at_vertex"
    ELSE IF {conv \in Conventions : RowsFollow(F, nv, c.vf, conv) /\ RowsFollow(F, nv, c.vfi, conv)
                                     /\ DegreeFollows(F, nv, c.vd, conv)} = {}
         THEN "vertex_degree_disagrees_with_incident_faces"
    ELSE IF c.stray # 0 THEN "vertex_outside_the_faces_has_incidence"
    ELSE IF {<<c.fsp[k][1], c.fsp[k][2]>> : k \in 1..Len(c.fsp)}
            # {<<v, f>> \in (0..(nv - 1)) \X FaceIds(F) : f \in Incident(F, v)}
         THEN "faces_sparse_is_the_incidence_relation"
    ELSE "ok"

\* connected components: list of components (any order) -> partition
OkPartition(comps, want, what) ==
    IF AsSets(comps) # want THEN what \o "_not_the_components"
    ELSE IF Len(comps) # Cardinality(want) \/ \E k \in 1..Len(comps) : ~Distinct(comps[k])
         THEN what \o "_repeat_an_element"
    ELSE "ok"
OkLabels(lab, n, want, what) ==
    IF Len(lab) # n THEN what \o "_shape"
    ELSE IF {{g \in 0..(n - 1) : lab[g + 1] = lab[f + 1]} : f \in 0..(n - 1)} # want
         THEN what \o "_not_equal_on_connected"
    ELSE "ok"
OkComponents(c, S, U) ==
    LET F == c.faces  nv == c.nv
        fc == FaceComponents(F, S)
        vc == VertexComponents(0..(nv - 1), U)
        vcRef == VertexComponents(Referenced(F), U)
        r == << OkPartition(c.split, fc, "split"),
                OkPartition(c.gsplit.scipy, fc, "graph_split_scipy"),
                OkPartition(c.gsplit.networkx, fc, "graph_split_networkx"),
                OkPartition(c.gsplit.auto, fc, "graph_split_auto"),
                OkPartition(c.cc.scipy, fc, "components_scipy_faces"),
                OkPartition(c.cc.networkx, fc, "components_networkx_faces"),
                OkPartition(c.cc.auto, fc, "components_auto_faces"),
                OkPartition(c.vcc.scipy, vc, "components_scipy_vertices"),
                OkPartition(c.vcc.networkx, vc, "components_networkx_vertices"),
                OkPartition(c.vcc.auto, vc, "components_auto_vertices"),
                OkLabels(c.ccl, Len(F), fc, "component_labels_faces"),
                OkLabels(c.vccl, nv, vc, "component_labels_vertices") >>
        bad == {k \in 1..Len(r) : r[k] # "ok"}
    IN
    IF bad # {} THEN r[CHOOSE k \in bad : \A j \in bad : k <= j]
    \* c.bcx = vertices of the real mesh that were left out of the record (all unreferenced)
    ELSE IF c.bc \notin {Cardinality(vcRef), Cardinality(vc) + c.bcx} THEN "body_count_vertex_connected_groups"
    ELSE "ok"

\* documented options of connected_components: min_len and nodes (all / None / a subset)
Induced(Sym, Nodes) == {p \in Sym : p[1] \in Nodes /\ p[2] \in Nodes}
Ends(Sym) == {p[1] : p \in Sym}
CompsMin(Nodes, Sym, ml) == {C \in Components(Nodes, Induced(Sym, Nodes)) : Cardinality(C) >= ml}
OkCcx(c, S, U) ==
    LET x == c.ccx  F == c.faces
        fsym == SymPairs(AdjRows(S))
        vsym == VertexSym(U)
        fN == IF x.mode = "all" THEN FaceIds(F) ELSE IF x.mode = "none" THEN Ends(fsym) ELSE Range(x.fnodes)
        vN == IF x.mode = "all" THEN 0..(c.nv - 1) ELSE IF x.mode = "none" THEN Referenced(F) ELSE Range(x.vnodes)
        fw == CompsMin(fN, fsym, x.ml)
        vw == CompsMin(vN, vsym, x.ml)
        r == << OkPartition(x.f.scipy, fw, "cc_opt_scipy_faces"),
                OkPartition(x.f.networkx, fw, "cc_opt_networkx_faces"),
                OkPartition(x.f.auto, fw, "cc_opt_auto_faces"),
                OkPartition(x.v.scipy, vw, "cc_opt_scipy_vertices"),
                OkPartition(x.v.networkx, vw, "cc_opt_networkx_vertices"),
                OkPartition(x.v.auto, vw, "cc_opt_auto_vertices") >>
        bad == {k \in 1..Len(r) : r[k] # "ok"}
    IN IF bad # {} THEN r[CHOOSE k \in bad : \A j \in bad : k <= j] ELSE "ok"

\* split(only_watertight=True): parts as lists of parent face ids, -1 = a face added by hole filling
SubWatertight(S, C) ==
    \A k \in 1..Len(S) : FaceOfRow(k) \in C => Cardinality({j \in Occ(S, S[k]) : FaceOfRow(j) \in C}) = 2
\* a part belongs to a component C when it holds all of C and every other entry is an added face:
\* -1, or (the decoder matches faces by their vertex triple) a parent face on the vertices of C
VertsOf(F, C) == UNION {Range(F[f + 1]) : f \in C}
PartOf(F, fc, p) ==
    {C \in fc : C \subseteq Range(p) /\
                 \A x \in Range(p) \ C : x = -1 \/ (x \in FaceIds(F) /\ Range(F[x + 1]) \subseteq VertsOf(F, C))}
Core(F, fc, p) == LET cand == PartOf(F, fc, p)
                  IN CHOOSE C \in cand : \A D \in cand : Cardinality(D) <= Cardinality(C)
OkWsplitOne(F, parts, fc, S, what) ==
    IF \E k \in 1..Len(parts) : PartOf(F, fc, parts[k]) = {} THEN what \o "_part_is_not_a_component"
    ELSE LET core == [k \in 1..Len(parts) |-> Core(F, fc, parts[k])] IN
    IF \E k \in 1..Len(parts) : \E x \in core[k] : Listed(parts[k], x) # 1 THEN what \o "_repeats_a_face"
    ELSE IF Cardinality(Range(core)) # Len(parts) THEN what \o "_repeats_a_component"
    ELSE IF \E k \in 1..Len(parts) : Range(parts[k]) = core[k] /\ ~SubWatertight(S, core[k])
         THEN what \o "_returned_an_open_part"
    ELSE IF \E C \in fc : Cardinality(C) >= 4 /\ SubWatertight(S, C) /\ C \notin Range(core)
         THEN what \o "_dropped_a_closed_part"
    ELSE "ok"
Cores(F, fc, parts) == {Core(F, fc, parts[k]) : k \in 1..Len(parts)}
OkWsplit(c, S) ==
    LET w == c.wsplit  F == c.faces
        fc == FaceComponents(F, S)
        r == << OkWsplitOne(F, w.scipy, fc, S, "wsplit_scipy"),
                OkWsplitOne(F, w.networkx, fc, S, "wsplit_networkx"),
                OkWsplitOne(F, w.auto, fc, S, "wsplit_auto"),
                OkWsplitOne(F, w.dflt, fc, S, "wsplit_default") >>
        bad == {k \in 1..Len(r) : r[k] # "ok"}
    IN
    IF bad # {} THEN r[CHOOSE k \in bad : \A j \in bad : k <= j]
    ELSE IF Cardinality({Cores(F, fc, w.scipy), Cores(F, fc, w.networkx), Cores(F, fc, w.auto),
                         Cores(F, fc, w.dflt)}) # 1
         THEN "split_only_watertight_depends_on_engine"
    ELSE "ok"

OkScalars(c, E, S, U) ==
    IF c.eul # Euler(c.faces, U) THEN "euler_number_v_minus_e_plus_f"
    ELSE IF Len(c.faces) = 0 THEN "ok"
    ELSE IF c.wt # Watertight(S) THEN "is_watertight_every_edge_twice"
    ELSE IF c.wc # WindingConsistent(E, S) THEN "is_winding_consistent_paired_edges_reversed"
    ELSE IF c.gwt # Watertight(S) THEN "graph_is_watertight_every_edge_twice"
    ELSE IF c.gwc # WindingConsistent(E, S) THEN "graph_is_watertight_winding_flag"
    ELSE "ok"

\* shared_edges(first part of the faces, the rest): the sorted edges present in both parts
OkShared(c, S) ==
    LET a == {S[k] : k \in {j \in 1..Len(S) : FaceOfRow(j) < c.cut}}
        b == {S[k] : k \in {j \in 1..Len(S) : FaceOfRow(j) >= c.cut}}
    IN IF {Sorted(c.she[k]) : k \in 1..Len(c.she)} # a \cap b THEN "shared_edges_are_the_edges_in_both_parts"
       ELSE IF Len(c.she) # Cardinality(a \cap b) THEN "shared_edges_repeat"
       ELSE "ok"

\* angle defects: recorded as round(sum(defects) / 2 pi * 10^6); only judged on closed manifolds
Abs(x) == IF x < 0 THEN -x ELSE x
OkDefects(c, U) ==
    IF c.hasdefect /\ ClosedManifold(c.faces, c.nv) /\ Abs(c.defect - 1000000 * Euler(c.faces, U)) > 5
    THEN "vertex_defects_sum_two_pi_euler"
    ELSE "ok"

ClauseMesh(c) ==
    LET F == c.faces
        E == Edges(F)
        S == EdgesSorted(F)
        U == Range(S)
        r1 == OkEdges(c, E, S)
        r2 == OkUnique(c, S, U)
        r3 == OkAdjacency(c, S)
        r4 == OkVertices(c, U)
        r5 == OkComponents(c, S, U)
        r6 == OkCcx(c, S, U)
        r7 == OkWsplit(c, S)
        r8 == OkScalars(c, E, S, U)
        r9 == OkShared(c, S)
        r10 == OkDefects(c, U)
    IN IF r1 # "ok" THEN r1 ELSE IF r2 # "ok" THEN r2 ELSE IF r3 # "ok" THEN r3
       ELSE IF r4 # "ok" THEN r4 ELSE IF r5 # "ok" THEN r5 ELSE IF r6 # "ok" THEN r6
       ELSE IF r7 # "ok" THEN r7 ELSE IF r8 # "ok" THEN r8 ELSE IF r9 # "ok" THEN r9 ELSE r10

\* free functions alone, called with vertex indices too large for a mesh (recorded through the
\* order-preserving relabelling onto 0..nv-1): edges, adjacency, watertight / winding, shared edges,
\* and (c.hascc) vertex components with nodes = None for every engine
ClauseFree(c) ==
    LET F == c.faces
        E == Edges(F)
        S == EdgesSorted(F)
        U == Range(S)
        vw == VertexComponents(Referenced(F), U)
        a == OkAdjRows(F, S, c.gfa, c.gfae, "graph_face_adjacency")
        r == << IF c.f2e # E THEN "faces_to_edges_stacked_order"
                ELSE IF c.f2e0 # E THEN "faces_to_edges_without_index"
                ELSE IF c.f2ei # EdgesFace(F) THEN "faces_to_edges_face_index" ELSE "ok",
                a,
                IF c.gwt # Watertight(S) THEN "graph_is_watertight_every_edge_twice"
                ELSE IF c.gwc # WindingConsistent(E, S) THEN "graph_is_watertight_winding_flag" ELSE "ok",
                OkShared(c, S),
                IF ~c.hascc THEN "ok" ELSE OkPartition(c.cc.scipy, vw, "components_scipy_vertices"),
                IF ~c.hascc THEN "ok" ELSE OkPartition(c.cc.networkx, vw, "components_networkx_vertices"),
                IF ~c.hascc THEN "ok" ELSE OkPartition(c.cc.auto, vw, "components_auto_vertices") >>
        bad == {k \in 1..Len(r) : r[k] # "ok"}
    IN IF bad # {} THEN r[CHOOSE k \in bad : \A j \in bad : k <= j] ELSE "ok"

\* Gauss-Bonnet on larger closed manifolds whose vertices sit on an integer lattice, many of them
\* nearly flat (true defect 1e-8 .. 1e-5 rad): the recorded value is round(sum(defects) / 2 pi * 10^8).
\* Well-shaped triangles keep the float error of one corner angle near 1e-16, so the sum is judged at
\* 2 + nv / 50 units of 2 pi * 10^-8; the property promises the sum, not the single defects.
ClauseGauss(c) ==
    LET F == c.faces
        S == EdgesSorted(F)
        U == Range(S)
    IN IF ~ClosedManifold(F, c.nv) THEN "ok"          \* RefSane holds the generator to its label
       ELSE IF c.eul # Euler(F, U) THEN "euler_number_v_minus_e_plus_f"
       ELSE IF c.wt # TRUE THEN "is_watertight_every_edge_twice"
       ELSE IF Len(c.vdn) # 1 \/ c.vdn[1] # c.nv THEN "vertex_defects_shape"
       ELSE IF Abs(c.defect8 - 100000000 * Euler(F, U)) > 2 + (c.nv \div 50)
            THEN "vertex_defects_sum_two_pi_euler"
       ELSE "ok"

Clause(c) == IF c.kind = "free" THEN ClauseFree(c)
             ELSE IF c.kind = "gauss" THEN ClauseGauss(c) ELSE ClauseMesh(c)

Init == i = 1
Next == i < Len(Cases) /\ i' = i + 1
Report == LET c == Cases[i]  cl == IF c.exc # "" THEN "raised_" \o c.exc ELSE Clause(c)
          IN IF cl # "ok" THEN PrintT(<<"REJECT", c.id, cl>>) ELSE TRUE

\* internal sanity of the reference itself, evaluated on the recorded inputs (a failure here is a
\* defect of the specification or of the seed library, never a finding about trimesh)
RefSane ==
    LET c == Cases[i]  F == c.faces  S == EdgesSorted(F)  U == Range(S)
        fc == FaceComponents(F, S)
        loops == {e \in U : e[1] = e[2]}
        Sum(f, D) == LET RECURSIVE Acc(_)
                         Acc(X) == IF X = {} THEN 0 ELSE LET x == CHOOSE y \in X : TRUE IN f[x] + Acc(X \ {x})
                     IN Acc(D)
        verts == 0..(c.nv - 1)
    IN
    \* components partition the faces
    /\ UNION fc = FaceIds(F) /\ \A A, B \in fc : A = B \/ A \cap B = {}
    \* handshake on the vertex graph without self edges
    /\ Sum([v \in verts |-> Cardinality(Neighbours(U, v) \ {v})], verts) = 2 * Cardinality(U \ loops)
    \* every corner of the edge list is counted once
    /\ Sum([e \in U |-> Count(S, e)], U) = 3 * Len(F)
    \* closed manifold => Euler number even or odd only through the vertex count: 2E = 3F
    /\ (NonDegenerate(F) /\ Watertight(S)) => 2 * Cardinality(U) = 3 * Len(F)
    \* the seed library's own label agrees with the definition (1 = closed manifold, 2 = not, 0 = unlabelled)
    /\ c.claim = 1 => ClosedManifold(F, c.nv)
    /\ c.claim = 2 => ~ClosedManifold(F, c.nv)
=============================================================================
